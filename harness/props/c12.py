"""C12 - cluster filtering keeps one best-ranked knee per cluster.
M: ClusterFilter.tla per-cluster loop for every contiguous labelling, score table and hull pattern (<=4 knees quick,
   5 thorough): result satisfies ClusterProps; negative instance: pick the worst-ranked member.
T: filter_clusters (4 linkages x thresholds x left/linear/right/hull) and filter_clusters_corners on real curves with
   tables from the library's own clustering / ranking / hull primitives, judged by Trace_Cluster.
T (scale): the same calls on production-size curves (300..10^5 points, up to ~900 knees, hundreds of clusters, clusters
   spanning tens of thousands of curve points), per-knee tables only, judged by Trace_ClusterScale (the clauses of
   ClusterProps in linear time) and cross-checked against Trace_Cluster where the latter can take the case.
T (scale, many clusters): calls with up to more than 65536 clusters of 1..5 knees (all linkages), independent labels, totals +
   sampled / steered cluster windows judged by Trace_ClusterScaleWin, cross-checked against Trace_ClusterScale on small calls."""
import itertools
import math
import random

import numpy as np

from harness import curves, monitor, numeric, par
from harness import enums
from harness import scale as sc

LINKAGES = ["single_linkage", "complete_linkage", "centroid_linkage", "average_linkage"]
MODES = ["left", "linear", "right", "hull", "corner"]


def _corr2(x, y):
    if len(x) <= 2:
        return 1.0
    return float(np.corrcoef(x, y)[0, 1]) ** 2.0


def _indep_scores(P, cl, mode):
    """the ranking score the property names, recomputed independently of knee_ranking.smooth_ranking:
    segment fit quality (squared Pearson correlation of the segment from the cluster's first knee to the knee /
    from the knee to the cluster's last knee / their mean) times relative height below the cluster's peak."""
    x, y = P[:, 0], P[:, 1]
    j, last = cl[0], cl[-1]
    peak = max(y[k] for k in cl)
    fit, w = [], []
    for k in cl:
        fl = _corr2(x[j:k + 1], y[j:k + 1])
        fr = _corr2(x[k:last], y[k:last])
        fit.append(fl if mode == "left" else fr if mode == "right" else (fl + fr) / 2.0)
        w.append(abs(peak - y[k]))
    sw = sum(w)
    if sw != 0:
        w = [v / sw for v in w]
    return [f * v for f, v in zip(fit, w)]


def _record(item):
    import kneeliverse.postprocessing as pp
    import kneeliverse.clustering as clustering
    import kneeliverse.knee_ranking as kr
    import kneeliverse.convex_hull as ch
    cid, P, knees, linkage, t, mode = item
    P = np.asarray(P, float)
    Pcall = P.astype(np.int64) if np.all(P == np.floor(P)) and cid.startswith("i") else P     # integer-dtype curve
    knees = np.array(knees, dtype=int)
    link = getattr(clustering, linkage)
    if mode == "corner":
        out, val, _ = monitor.call(pp.filter_clusters_corners, (Pcall, knees, link, t), budget=200000, wall=30)
    else:
        out, val, _ = monitor.call(pp.filter_clusters, (Pcall, knees, link, t, enums.pick(kr.ClusterRanking, mode)), budget=200000, wall=30)
    case = {"id": cid, "mode": mode, "outcome": out, "knees": [int(k) for k in knees], "result": [],
            "lab": [], "score": [], "hullSpan": []}
    meta = {"points": P.tolist(), "knees": case["knees"], "linkage": linkage, "t": t, "mode": mode, "cid": cid}
    if out == "returned":
        case["result"] = [int(v) for v in np.asarray(val).tolist()]
    else:
        meta["error"] = val
    lab = [int(v) for v in link(P[knees], t).tolist()]
    case["lab"] = lab
    ncl = lab[-1] + 1
    score = [-1] * len(knees)
    hullspan = [True] * ncl
    if mode == "hull":
        try:
            hull = set(int(h) for h in ch.graham_scan_lower(P).tolist())
        except Exception:
            hull = None
    for c in range(ncl):
        mem = [j for j in range(len(knees)) if lab[j] == c]
        cl = knees[mem]
        if mode == "hull":
            hullspan[c] = hull is None or any(cl[0] <= h <= cl[-1] for h in hull)
            continue
        if len(mem) == 1:
            score[mem[0]] = 0
            continue
        try:
            if mode == "corner":
                vals = [0.5 * ((P[k][0] - P[k - 1][0]) * (P[k][1] - P[k + 1][1])) for k in cl]
            else:
                vals = _indep_scores(P, [int(k) for k in cl], mode)
                lib = [float(v) for v in kr.smooth_ranking(P, cl, enums.pick(kr.ClusterRanking, mode))]
                if not all(numeric.close(a, b) or (math.isnan(a) and math.isnan(b)) for a, b in zip(vals, lib)):
                    meta["drift"] = "smooth_ranking %s differs from the independent score %s" % (lib, vals)
        except Exception:
            vals = [float("nan")] * len(mem)
        if any(math.isnan(v) or math.isinf(v) for v in vals):
            continue                                   # NaN scores: structural clauses only
        scale = max(max(abs(v) for v in vals), 1e-300)
        rk = numeric.ranks(vals, rel=1e-9, ab=1e-12 * max(scale, 1.0) if mode == "corner" else 1e-12)
        for j, r in zip(mem, rk):
            score[j] = r
    case["score"] = score
    case["hullSpan"] = hullspan
    return case, meta


def inputs(ctx):
    rng = ctx.rng
    items = []
    k = 0
    cs = [curves.random_curve(rng, 8, 80) for _ in range(60 if ctx.quick else 500)]
    cs += [P for P in curves.adversarial() if len(P) >= 8]
    cs += curves.trace_windows(rng, 4 if ctx.quick else 40, 20, 80, names=("web0_reduced.csv", "usr0.csv", "web2.csv"))
    cs += [curves.random_curve(rng, n, n, kind=rng.choice([0, 2, 4])) for n in ([800, 2500] if ctx.quick else [800, 2500, 2500, 6000])]   # long curves
    ints = []
    for _ in range(20 if ctx.quick else 150):       # integer-valued curves, passed to the library as int64 arrays
        n = rng.randint(10, 60)
        x = np.cumsum([rng.randint(1, 3) for _ in range(n)])
        y = np.array(sorted([rng.randint(0, 400) for _ in range(n)], reverse=True))
        for j in rng.sample(range(1, n - 1), min(n - 2, 3)):
            y[j] += rng.randint(1, 15)             # small bumps
        ints.append(curves.mk(x, y))
    for P in cs + ints:
        isint = any(P is q for q in ints)
        n = len(P)
        interior = list(range(1, n - 1))
        subsets = []
        if n <= 10:
            for size in range(2, 6):
                subsets += [list(s) for s in itertools.combinations(interior, size)]
            subsets = rng.sample(subsets, min(len(subsets), 12 if ctx.quick else 60))
        else:
            for _ in range(6 if ctx.quick else 12):
                size = rng.randint(2, min(len(interior), 14 if n <= 200 else 120))
                if rng.random() < 0.5:      # runs of adjacent knees make multi-member clusters
                    start = rng.randint(1, n - 1 - size)
                    subsets.append(list(range(start, start + size)))
                else:
                    subsets.append(sorted(rng.sample(interior, size)))
        for kn in subsets:
            for _ in range(3):
                items.append(("%s%d" % ("i" if isint else "k", k), P.tolist(), kn, rng.choice(LINKAGES), rng.choice([0.05, 0.1, 0.2, 0.5, 0.5, 1.0, 1.5]), rng.choice(MODES)))     # t = 1 and t > 1 are valid thresholds
                k += 1
    return items


STATIC = {"id": "static", "mode": "linear", "outcome": "returned", "knees": [3, 4, 5, 9, 12], "lab": [0, 0, 0, 1, 2],
          "score": [0, 2, 1, 0, 0], "hullSpan": [True, True, True], "result": [4, 9, 12]}


def _selftests():
    import copy
    out = [(STATIC, "ok")]
    c = copy.deepcopy(STATIC); c["result"] = [3, 9, 12]; out.append((c, "best-in-cluster"))
    c = copy.deepcopy(STATIC); c["result"] = [4, 5, 9, 12]; out.append((c, "one-per-cluster"))
    c = copy.deepcopy(STATIC); c["result"] = [4, 12]; out.append((c, "one-per-cluster"))
    c = copy.deepcopy(STATIC); c["result"] = [9, 4, 12]; out.append((c, "increasing-subset"))
    c = copy.deepcopy(STATIC); c["result"] = [4, 10, 12]; out.append((c, "increasing-subset"))
    c = copy.deepcopy(STATIC); c["mode"] = "hull"; c["hullSpan"] = [True, False, True]; out.append((c, "hull-unrepresented-cluster"))
    c = copy.deepcopy(STATIC); c["mode"] = "hull"; c["result"] = [3, 4, 12]; out.append((c, "hull-at-most-one"))
    c = copy.deepcopy(STATIC); c["mode"] = "hull"; c["result"] = [12]; out.append((c, "ok"))
    c = copy.deepcopy(STATIC); c["mode"] = "corner"; c["result"] = [5, 9, 12]; out.append((c, "corner-best"))
    c = copy.deepcopy(STATIC); c["outcome"] = "raised:NameError"; out.append((c, "completes"))
    return out


# ---------------------------------------------------------------------------------------------------- scale family
# Production-size inputs.  A case is a RECIPE (shape, n, seed, options) - never a point list - so that items, metas and
# replay files stay small; the tables that reach TLC are per KNEE (labels, score ranks, position of each returned index),
# never per curve point.
SC_SHAPES = ["jitter", "texture", "mrc", "stair", "convex", "valley", "spikes", "walk"]
SC_LAYOUTS = ["marks", "far", "runs", "many"]
SC_T = [0.002, 0.02, 0.1, 0.3, 0.7, 1.0, 1.5]
SC_RANKED = ["left", "linear", "right"]
EPS = 2.0 ** -52


def _texture(n, rng):
    """Piecewise-linear trend (3..6 pieces, mostly decreasing) with 1..3 sections carrying a zero-mean PERIODIC texture
    (period 2..16, amplitude from negligible to larger than the section's drop): the fit quality of a segment that
    covers such a section depends on every sample of it (a strided / decimated / truncated evaluation sees a line)."""
    cuts = sorted(rng.sample(range(n // 16, n - n // 16), rng.randint(2, 5)))
    b = [0] + cuts + [n]
    slope = np.empty(n)
    for lo, hi in zip(b, b[1:]):
        slope[lo:hi] = rng.choice([-4.0, -2.0, -1.0, -1.0, -0.5, -0.25, -0.125, 0.25, 1.0]) * (1000.0 / n)
    y = 2000.0 + np.cumsum(slope)
    marks = list(cuts)
    segs = list(zip(b, b[1:]))
    rng.shuffle(segs)
    for lo, hi in segs[:rng.randint(1, min(3, len(segs)))]:
        if hi - lo < 8:
            continue
        a = lo + rng.randrange(0, (hi - lo) // 4) + 1
        e = hi - rng.randrange(0, (hi - lo) // 4)
        p = rng.choice([2, 2, 3, 4, 5, 7, 8, 16])
        amp = rng.choice([0.5, 5.0, 50.0, 150.0, 300.0])
        j = np.arange(a, e)
        y[j] += amp * np.where(j % p == 0, 1.0, -1.0 / (p - 1))
        marks += [a - 1, e]
    return y, marks


def _sc_build(r):
    """recipe -> (points (n, 2) float64 with strictly increasing x and y >= 0, structural indices usable as knees)"""
    n, shape = r["n"], r["shape"]
    rng = random.Random(r["seed"])
    marks = []
    if shape == "jitter":          # straight line (either direction) with an alternating jitter on a..b-1
        a, b = r["a"], r["b"]
        P = sc.jitter_line(n, a, b, r["amp"], slope=r["dir"] * 800.0 / n, top=1000.0 if r["dir"] < 0 else 100.0)
        marks = [a - 1, b]
    elif shape == "texture":
        y, marks = _texture(n, rng)
        P = sc._xy(y)
    elif shape == "mrc":
        P = sc.mrc(n, rng, knees=rng.randint(3, 9))
        marks = [int(v) + 1 for v in np.where(np.diff(P[:, 1]) < -1.0)[0]]
    elif shape == "stair":
        steps = rng.choice([5, 12, 40])
        P = sc.staircase(n, steps, rng, grow=rng.random() < 0.3, jitter=rng.choice([0, 3, 3]))
        w = n // max(1, min(steps, n // 4))
        marks = [s * w for s in range(1, max(1, min(steps, n // 4)))]
    elif shape == "convex":
        corners = rng.choice([3, 8, 30])
        P = sc.convex_pl(n, corners)
        w = n // (max(1, min(corners, n // 3)) + 1)
        marks = [c * w for c in range(1, max(1, min(corners, n // 3)) + 1)]
    elif shape == "valley":
        P = sc.valley(n, rng)
        marks = [int(np.argmin(P[:, 1]))]
    elif shape == "spikes":
        P = sc.spikes(n, period=rng.choice([3, 4, 5, 8]))
    elif shape == "walk":          # random walk with a downward drift (numpy's PCG64 stream is stable across versions)
        g = np.random.Generator(np.random.PCG64(r["seed"]))
        y = np.cumsum(g.normal(-0.05, 1.0, n))
        P = sc._xy(np.floor(y * 256.0) / 256.0)
    else:
        raise ValueError(shape)
    P = np.array(P, dtype=float)
    if P[:, 1].min() < 0:
        P[:, 1] -= P[:, 1].min()
    if r.get("xs") == "ragged":      # uneven, exactly representable spacing (the linkages work on x distances)
        steps = np.array([rng.choice([0.5, 1.0, 1.0, 2.0, 4.0]) for _ in range(64)])
        P[:, 0] = np.concatenate([[0.0], np.cumsum(sc.tile(steps, n - 1))])
    return np.ascontiguousarray(P), sorted(set(m for m in marks if 1 <= m <= n - 2))


def _sc_knees(rng, n, marks, layout):
    """interior knee subsets (strictly increasing, 1..n-2)"""
    lo, hi = 1, n - 2
    ks = set()
    if layout == "marks":          # the structural points themselves (and their neighbours): foot / top of every feature
        for m in (marks if len(marks) <= 40 else rng.sample(marks, 40)):
            ks.add(m)
            if rng.random() < 0.3:
                ks.add(min(hi, max(lo, m + rng.choice([-2, -1, 1, 2]))))
        while len(ks) < 3:
            ks.add(rng.randint(lo, hi))
    elif layout == "far":          # a handful of knees, each thousands of points from the next on a long curve
        for m in rng.sample(marks, min(len(marks), rng.randint(0, 3))):
            ks.add(m)
        want = rng.randint(3, 9)
        tries = 0
        while len(ks) < want and tries < 200:
            tries += 1
            k = rng.randint(lo, hi)
            if all(abs(k - o) >= n // 40 for o in ks):
                ks.add(k)
    elif layout == "runs":         # runs of adjacent knees far apart + singles
        for _ in range(rng.randint(2, 5)):
            s = rng.choice(marks) if marks and rng.random() < 0.5 else rng.randint(lo, hi)
            for k in range(s, s + rng.randint(3, 12)):
                if lo <= k <= hi:
                    ks.add(k)
        for _ in range(rng.randint(0, 4)):
            ks.add(rng.randint(lo, hi))
    else:                          # many knees: hundreds of clusters for small t, one huge cluster for large t
        cap = max(40, min(900, 16000000 // n, (n - 2) // 2))
        ks = set(rng.sample(range(lo, hi + 1), rng.randint(min(40, cap), cap)))
    return sorted(ks)


def _corr2_ld(x, y):
    """squared Pearson correlation of a segment in extended precision (two-pass, centred), and a generous bound on the
    absolute error a binary64 evaluation of the same quantity may carry: ~ m * eps * (conditioning of the two centrings)"""
    m = len(x)
    if m <= 2:
        return 1.0, 0.0
    xl = np.asarray(x, dtype=np.longdouble)
    yl = np.asarray(y, dtype=np.longdouble)
    xc = xl - xl.mean()
    yc = yl - yl.mean()
    sxx, syy, sxy = float((xc * xc).sum()), float((yc * yc).sum()), float((xc * yc).sum())
    if not (sxx > 0 and syy > 0):
        return float("nan"), float("inf")
    kx = math.sqrt(float((xl * xl).sum()) / sxx)
    ky = math.sqrt(float((yl * yl).sum()) / syy)
    return min(1.0, sxy * sxy / (sxx * syy)), 16.0 * m * EPS * (kx + ky)


def _sc_scores(P, cl, mode):
    """the ranking score of the property for one cluster (as _indep_scores, extended precision) -> (scores, noise):
    noise is the absolute uncertainty below which two scores are not told apart (None: ill-conditioned, judge nothing)"""
    x, y = P[:, 0], P[:, 1]
    j, last = cl[0], cl[-1]
    peak = max(y[k] for k in cl)
    fit, w, err = [], [], 0.0
    for k in cl:
        fl, el = _corr2_ld(x[j:k + 1], y[j:k + 1]) if mode != "right" else (0.0, 0.0)
        fr, er = _corr2_ld(x[k:last], y[k:last]) if mode != "left" else (0.0, 0.0)
        fit.append(fl if mode == "left" else fr if mode == "right" else (fl + fr) / 2.0)
        err = max(err, el, er)
        w.append(abs(peak - y[k]))
    sw = math.fsum(w)
    if sw != 0:
        w = [v / sw for v in w]
    vals = [f * v for f, v in zip(fit, w)]
    if any(math.isnan(v) or math.isinf(v) for v in vals) or not err < 1e-6:
        return vals, None
    return vals, max(1e-9, err) * max(max(w), 1e-300)


def _record_scale(item):
    import kneeliverse.postprocessing as pp
    import kneeliverse.clustering as clustering
    import kneeliverse.knee_ranking as kr
    import kneeliverse.convex_hull as ch
    cid, recipe, knees, linkage, t, mode = item
    P, _ = _sc_build(recipe)
    n = len(P)
    Pcall = P.astype(np.int64) if recipe.get("int") and np.all(P == np.floor(P)) else P
    knees = np.array(knees, dtype=int)
    link = getattr(clustering, linkage)
    budget, wall = monitor.quad(n, 8), 300 + n // 100     # hang protection only: no returning run comes near either
    if mode == "corner":
        out, val, _ = monitor.call(pp.filter_clusters_corners, (Pcall, knees, link, t), budget=budget, wall=wall)
    else:
        out, val, _ = monitor.call(pp.filter_clusters, (Pcall, knees, link, t, enums.pick(kr.ClusterRanking, mode)), budget=budget, wall=wall)
    case = {"id": cid, "mode": mode, "outcome": out, "knees": [int(k) for k in knees], "result": [], "pos": [],
            "lab": [], "score": [], "hullSpan": []}
    meta = {"scale": recipe, "knees": case["knees"], "linkage": linkage, "t": t, "mode": mode, "cid": cid, "n": n,
            "skipped": 0, "judged": 0, "wide": 0, "maxspan": 0}
    if out == "returned":
        case["result"] = [int(v) for v in np.asarray(val).tolist()]
        where = {k: j + 1 for j, k in enumerate(case["knees"])}
        case["pos"] = [where.get(v, 0) for v in case["result"]]
    else:
        meta["error"] = val
    lab = [int(v) for v in link(P[knees], t).tolist()]
    case["lab"] = lab
    ncl = lab[-1] + 1
    score = [-1] * len(knees)
    hullspan = [True] * ncl
    members = [[] for _ in range(ncl)]
    for j, c in enumerate(lab):
        members[c].append(j)
    if mode == "hull":
        try:
            hull = np.sort(np.asarray(ch.graham_scan_lower(P), dtype=np.int64))
        except Exception:
            hull = None
    for c, mem in enumerate(members):
        cl = knees[mem]
        if len(mem) > 1:
            meta["maxspan"] = max(meta["maxspan"], int(cl[-1] - cl[0]))
        if mode == "hull":
            if hull is not None:
                a = int(np.searchsorted(hull, cl[0], side="left"))
                hullspan[c] = bool(a < len(hull) and hull[a] <= cl[-1])
            continue
        if len(mem) == 1:
            score[mem[0]] = 0
            continue
        try:
            if mode == "corner":
                vals = [0.5 * ((P[k][0] - P[k - 1][0]) * (P[k][1] - P[k + 1][1])) for k in cl]
                noise = 1e-12 * max(max(abs(v) for v in vals), 1.0)
                if any(math.isnan(v) or math.isinf(v) for v in vals):
                    noise = None
            else:
                vals, noise = _sc_scores(P, [int(k) for k in cl], mode)
                if noise is not None:
                    lib = [float(v) for v in kr.smooth_ranking(P, cl, enums.pick(kr.ClusterRanking, mode))]
                    if not all(numeric.close(a, b, rel=1e-9, ab=noise) for a, b in zip(vals, lib)):
                        worst = max(range(len(vals)), key=lambda q: abs(vals[q] - lib[q]))
                        meta["drift"] = ("scale n=%d %s cluster of %d knees spanning %d points: smooth_ranking gives %r for knee %d, "
                                         "the independent score is %r" % (n, mode, len(cl), cl[-1] - cl[0], lib[worst], cl[worst], vals[worst]))
        except Exception:
            noise = None
        if noise is None:
            meta["skipped"] += 1                       # NaN / ill-conditioned scores: structural clauses only
            continue
        meta["judged"] += 1
        if cl[-1] - cl[0] > 4096:
            meta["wide"] += 1
        for j, r in zip(mem, numeric.ranks(vals, rel=1e-9, ab=noise)):
            score[j] = r
    case["score"] = score
    case["hullSpan"] = hullspan
    return case, meta


def scale_inputs(ctx):
    """(items, sizes): recipes x knee layouts x (linkage, t, mode)"""
    rng = ctx.rng
    sizes = (sc.sizes(ctx, lo=257, hi=4200, k_quick=2, k_thorough=4) + sc.sizes(ctx, lo=4201, hi=110000, k_quick=3, k_thorough=7)
             + [20000 + rng.randrange(0, 3000)])                      # always one size between 16384 and 32768
    sizes = sorted(set(sizes))
    items = []
    k = 0
    for n in sizes:
        shapes = ["jitter", "texture"] + (rng.sample(SC_SHAPES[2:], 2) if ctx.quick else SC_SHAPES[2:] + ["jitter", "texture"])
        for shape in shapes:
            r = {"shape": shape, "n": n, "seed": rng.randrange(1 << 30)}
            if shape == "jitter":
                a = rng.randrange(n // 10, n // 2)
                r.update(a=a, b=min(n - 2, a + rng.randrange(n // 8, n // 2)), amp=rng.choice([20.0, 150.0, 150.0, 400.0]),
                         dir=rng.choice([-1, -1, 1]))
            if rng.random() < 0.25:
                r["xs"] = "ragged"
            if shape in ("stair", "convex", "valley") and "xs" not in r and rng.random() < 0.4:
                r["int"] = True                      # integer-valued curve passed as an int64 array
            _, marks = _sc_build(r)
            layouts = SC_LAYOUTS if not ctx.quick else (["marks" if marks else "far"] + rng.sample(SC_LAYOUTS[1:], 2))
            for layout in layouts:
                kn = _sc_knees(rng, n, marks or [n // 2], layout)
                if len(kn) < 2:
                    continue
                # one call whose clusters are as wide as the knee set allows (ranked mode), then free choices
                combos = [(rng.choice(LINKAGES), rng.choice([0.7, 1.0, 1.5]), rng.choice(SC_RANKED))]
                for _ in range(2 if ctx.quick else 3):
                    combos.append((rng.choice(LINKAGES), rng.choice(SC_T), rng.choice(SC_RANKED + MODES)))
                if layout == "many":                 # hundreds of clusters (labels and cluster counts beyond 127 / 255)
                    combos.append((rng.choice(LINKAGES), rng.choice([0.0005, 0.002]), rng.choice(MODES)))
                for linkage, t, mode in combos:
                    items.append(("s%d" % k, r, kn, linkage, t, mode))
                    k += 1
    items.sort(key=lambda it: -it[1]["n"] * (len(it[2]) if it[5] != "hull" else 200))     # long calls first
    return items, sizes


def _with_pos(c):
    c = dict(c)
    where = {k: j + 1 for j, k in enumerate(c["knees"])}
    c["pos"] = [where.get(v, 0) for v in c["result"]]
    return c


def _scale_selftests():
    import copy
    out = [(_with_pos(c), cl) for c, cl in _selftests()]
    c = _with_pos(STATIC); c["pos"] = [2, 4, 4]; out.append((c, "increasing-subset"))       # knees[pos] is not the result
    c = _with_pos(STATIC); c["result"] = [4, 10, 12]; c["pos"] = [2, 0, 5]; out.append((c, "increasing-subset"))
    c = _with_pos(STATIC); c["result"] = [4, 9, 12]; c["pos"] = [2, 0, 5]; out.append((c, "malformed"))   # false absence
    c = _with_pos(STATIC); c["lab"] = [0, 0, 0, 2, 3]; out.append((c, "malformed"))
    c = _with_pos(STATIC); c["score"] = [0, -1, 1, 0, 0]; out.append((c, "malformed"))
    c = _with_pos(STATIC); c["score"] = [-1, -1, -1, 0, 0]; c["result"] = [3, 9, 12]; c["pos"] = [1, 4, 5]; out.append((c, "ok"))
    c = copy.deepcopy(_with_pos(STATIC)); c["mode"] = "hull"; c["result"] = []; c["pos"] = []; out.append((c, "ok"))
    return out


XSMALL = 40        # scale cases with at most this many knees are also judged by Trace_Cluster


def _scale_judge(ctx, cases, selftest=None, ref=None):
    """Trace_ClusterScale on every case; Trace_Cluster (cubic in the number of knees) on the small ones, as a cross-check
    of the linear-time clauses: both must reject the same cases with the same clause.  ref: the rejections of Trace_Cluster
    when the caller has already run it on the small cases (run() does so in the same TLC runs as the small family)."""
    small = [c for c in cases if len(c["knees"]) <= XSMALL]
    rej = ctx.trace("Trace_ClusterScale", cases, selftest=selftest, chunk=400)
    for cid, vs in rej.items():
        if vs[0][0] == "malformed":
            raise RuntimeError("scale recorder produced malformed tables for %s: %s" % (cid, vs[0]))
    if ref is None:
        ref = ctx.trace("Trace_Cluster", small, chunk=600)
        ctx.traces -= len(small)                     # the same recorded calls, judged twice
    for c in small:
        a = rej.get(c["id"], [["ok"]])[0][0]
        b = ref.get(c["id"], [["ok"]])[0][0]
        if a != b:
            raise RuntimeError("Trace_ClusterScale (%s) and Trace_Cluster (%s) disagree on %s" % (a, b, c))
    ctx.extra["scale_cross_checked_with_Trace_Cluster"] = ctx.extra.get("scale_cross_checked_with_Trace_Cluster", 0) + len(small)
    return rej


def _scale_case(m):
    return {"scale": m["scale"], "knees": m["knees"], "linkage": m["linkage"], "t": m["t"], "mode": m["mode"], "cid": m["cid"]}


def run_scale(ctx, sizes, rec, ref):
    cases = [c for c, _ in rec]
    meta = {c["id"]: m for c, m in rec}
    rej = _scale_judge(ctx, cases, selftest=_scale_selftests(), ref=ref)
    st = {"sizes": sizes, "calls": len(cases), "by_shape": {}, "by_mode": {}, "by_linkage": {}, "max_knees": 0, "max_clusters": 0,
          "widest_multi_member_cluster_points": 0, "clusters_ranked": 0, "clusters_ranked_spanning_over_4096_points": 0,
          "clusters_left_unranked_nan_or_ill_conditioned": 0, "calls_with_over_256_clusters": 0, "int64_curves": 0, "ragged_x": 0}
    for c in cases:
        m = meta[c["id"]]
        if "drift" in m:
            ctx.note("DRIFT: " + m["drift"][:300])
        r = m["scale"]
        for key, v in (("by_shape", r["shape"]), ("by_mode", m["mode"]), ("by_linkage", m["linkage"])):
            st[key][v] = st[key].get(v, 0) + 1
        ncl = c["lab"][-1] + 1
        st["max_knees"] = max(st["max_knees"], len(c["knees"]))
        st["max_clusters"] = max(st["max_clusters"], ncl)
        st["calls_with_over_256_clusters"] += ncl > 256
        st["widest_multi_member_cluster_points"] = max(st["widest_multi_member_cluster_points"], m["maxspan"])
        st["clusters_ranked"] += m["judged"]
        st["clusters_ranked_spanning_over_4096_points"] += m["wide"]
        st["clusters_left_unranked_nan_or_ill_conditioned"] += m["skipped"]
        st["int64_curves"] += bool(r.get("int"))
        st["ragged_x"] += r.get("xs") == "ragged"
        ctx.count((r, m["knees"], m["linkage"], m["t"], m["mode"]), ncl < len(c["knees"]))
    ctx.extra["scale"] = st
    for cid, vs in rej.items():
        m = meta[cid]
        ctx.violation(vs[0][0], _scale_case(m), {"verdict": vs[0], "error": m.get("error"), "n": m["n"], "knees": len(m["knees"])},
                      match="%s:%s" % (vs[0][0], m["mode"]))
    sm = next((c for c in cases if meta[c["id"]]["wide"] and len(c["knees"]) <= 12), cases[0])
    ctx.sample({"binding": "T (scale)", "call": {k: v for k, v in meta[sm["id"]].items() if k not in ("skipped", "judged", "wide")}, "case": sm})


# ------------------------------------------------------------------------------- scale family, part 2: MANY clusters
# Calls with 10^2 .. more than 65536 clusters (cluster ids and counts beyond int16 / uint16, per-cluster loops of tens of
# thousands of rounds).  The knee set is a RECIPE too (groups of 1..5 knees a few points apart, wider steps between groups)
# and the threshold is tau / (x range of the knees) with tau strictly between the two kinds of step, far from every tie.
# The labelling is NOT taken from the library here (a linkage that goes wrong beyond 2^15 clusters would corrupt the oracle):
# _ref_labels transcribes the four threshold rules of C11.  Full per-knee tables would be megabytes per call: the recorder
# sends the three totals and a few hundred cluster WINDOWS (see Trace_ClusterScaleWin), steered towards the places the result
# makes suspicious, so that a structural violation anywhere in the call always reaches TLC.
BIGV = 1 << 30
BIG_KINDS = {      # sizes: members per group; inner: index steps inside a group; steps: index steps between groups
    "triples": {"sizes": [1, 2, 3], "inner": [1], "steps": [2], "taus": [1.37, 1.63]},
    "singles": {"sizes": [1, 1, 1, 2], "inner": [1], "steps": [2], "taus": [1.37, 1.63]},
    "pairs": {"sizes": [1, 2, 2], "inner": [1], "steps": [2, 3], "taus": [1.37, 1.71]},
    "loose": {"sizes": [1, 2, 3, 4], "inner": [1, 2], "steps": [3, 4], "taus": [2.37, 2.61]},
    "wide": {"sizes": [2, 3, 4, 5], "inner": [1, 2, 3], "steps": [6, 9], "taus": [3.37, 4.37, 5.61]},
}       # taus: with integer steps every linkage distance is a multiple of 1/60 (<= 5 members): 60 * tau is never near an integer
BIG_SHAPES = ["walk", "walk", "jitter", "texture", "mrc", "stair", "convex", "spikes"]
BIG_FULL = 1500        # calls with at most this many knees are also judged by Trace_ClusterScale on full tables


def _big_knees(ks):
    """knee recipe -> strictly increasing interior indices (numpy int array); the curve needs ks['n'] points"""
    kind = BIG_KINDS[ks["kind"]]
    rng = random.Random(ks["seed"])
    k = 1 + rng.randrange(0, 4)
    out = []
    for _ in range(ks["groups"]):
        size = rng.choice(kind["sizes"])
        for m in range(size):
            out.append(k)
            if m < size - 1:
                k += rng.choice(kind["inner"])
        k += rng.choice(kind["steps"])
    return np.array(out, dtype=int)


def _ref_labels(xs, linkage, t):
    """The threshold rules of C11, transcribed: a new cluster starts at knee i exactly when its linkage distance to the
    current cluster / x range >= t.  -> (labels, smallest |distance - t| / t over all decisions: the tie margin)"""
    length = xs[-1] - xs[0]
    lab, c, first, margin = [0], 0, 0, float("inf")
    tot = xs[0]
    for i in range(1, len(xs)):
        if linkage == "single_linkage":
            d = abs(xs[i] - xs[i - 1]) / length
        elif linkage == "complete_linkage":
            d = abs(xs[i] - xs[first]) / length
        elif linkage == "centroid_linkage":
            d = abs(xs[i] - tot / (i - first)) / length
        else:
            d = math.fsum(abs(xs[q] - xs[i]) for q in range(first, i)) / ((i - first) * length)
        margin = min(margin, abs(d - t))
        if d >= t:
            c += 1
            first = i
            tot = 0.0
        tot += xs[i]
        lab.append(c)
    return lab, margin / t


def _big_recipe(rng, shape, n):
    r = {"shape": shape, "n": n, "seed": rng.randrange(1 << 30)}
    if shape == "jitter":
        a = rng.randrange(n // 10, n // 2)
        r.update(a=a, b=min(n - 2, a + rng.randrange(n // 8, n // 2)), amp=rng.choice([20.0, 150.0, 400.0]), dir=rng.choice([-1, -1, 1]))
    if shape in ("stair", "convex") and rng.random() < 0.4:
        r["int"] = True
    return r


def _record_big(item):
    import kneeliverse.postprocessing as pp
    import kneeliverse.clustering as clustering
    import kneeliverse.knee_ranking as kr
    import kneeliverse.convex_hull as ch
    cid, recipe, ks, linkage, mode = item
    P, _ = _sc_build(recipe)
    n = len(P)
    Pcall = P.astype(np.int64) if recipe.get("int") and np.all(P == np.floor(P)) else P
    kn = _big_knees(ks)
    assert 1 <= kn[0] and kn[-1] <= n - 2
    K = len(kn)
    t = ks["tau"] / float(P[kn[-1], 0] - P[kn[0], 0])
    link = getattr(clustering, linkage)
    budget, wall = monitor.quad(n, 8), 600 + n // 50      # hang protection only
    if mode == "corner":
        out, val, _ = monitor.call(pp.filter_clusters_corners, (Pcall, kn.copy(), link, t), budget=budget, wall=wall)
    else:
        out, val, _ = monitor.call(pp.filter_clusters, (Pcall, kn.copy(), link, t, enums.pick(kr.ClusterRanking, mode)), budget=budget, wall=wall)
    labl, margin = _ref_labels(P[kn, 0].tolist(), linkage, t)
    lab = np.array(labl, dtype=np.int64)
    ncl = int(lab[-1]) + 1
    first = np.searchsorted(lab, np.arange(ncl + 1))
    sizes = np.diff(first)
    meta = {"scale": recipe, "big": ks, "linkage": linkage, "t": t, "mode": mode, "cid": cid, "n": n, "K": K, "ncl": ncl,
            "multi": int((sizes > 1).sum()), "judged": 0, "skipped": 0, "tie": bool(margin < 1e-9), "full": None}
    case = {"id": cid, "mode": mode, "outcome": out, "K": K, "R": 0, "ncl": ncl, "wins": [], "pairs": [], "strays": []}
    if meta["tie"]:
        return None, meta                              # a decision within rounding noise of a tie pins nothing
    try:
        liblab = np.asarray(link(P[kn], t))
        if liblab.shape != lab.shape or not np.array_equal(liblab.astype(np.int64), lab):
            bad = int(np.argmax(liblab.astype(np.int64) != lab)) if liblab.shape == lab.shape else -1
            meta["drift"] = ("many-clusters n=%d: %s labels %d knees differently from the threshold rule of C11 (first difference at "
                             "knee #%d, %d clusters expected)" % (n, linkage, K, bad, ncl))
    except Exception as ex:
        meta["drift"] = "many-clusters n=%d: %s raised %r on the knees" % (n, linkage, ex)
    if out != "returned":
        meta["error"] = val
        return case, meta
    res = np.array([max(-BIGV + 1, min(BIGV - 1, int(v))) for v in np.asarray(val).ravel().tolist()], dtype=np.int64)
    R = len(res)
    case["R"] = R
    rng = random.Random(ks["seed"] ^ 0x5bd1e995)
    # ---- steering: where does the result look wrong?  (decides only which windows are sent)
    pos = np.searchsorted(kn, res)
    isk = (pos < K) & (kn[np.minimum(pos, K - 1)] == res)
    counts = np.bincount(lab[pos[isk]], minlength=ncl) if R else np.zeros(ncl, dtype=np.int64)
    odd = np.nonzero(counts > 1)[0] if mode == "hull" else np.nonzero(counts != 1)[0]
    want = [int(c) for c in odd[:3]] + [int(c) for c in odd[-1:]]
    for j in np.nonzero(~isk)[0][:3]:
        p = int(pos[j])
        case["strays"].append({"v": int(res[j]), "below": int(kn[p - 1]) if p > 0 else -BIGV, "above": int(kn[p]) if p < K else BIGV})
        want.append(int(lab[min(p, K - 1)]))
    down = np.nonzero(np.diff(res) <= 0)[0] if R > 1 else np.zeros(0, dtype=int)
    pj = [int(j) for j in down[:3]]
    if R > 1:
        pj += [0, R - 2] + [rng.randrange(0, R - 1) for _ in range(40)]
    for j in sorted(set(pj)):
        case["pairs"].append([int(res[j]), int(res[j + 1])])
    # ---- the sample of clusters
    full = K <= BIG_FULL
    if full:
        want = list(range(ncl))
    else:
        want += [0, 1, ncl - 2, ncl - 1]
        for th in (127, 255, 4095, 16383, 32767, 65535):
            want += [th - 1, th, th + 1, th + 2]
        s0 = rng.randrange(0, ncl)
        want += list(range(s0, s0 + 20))
        multi = np.nonzero(sizes > 1)[0]
        want += [int(multi[rng.randrange(0, len(multi))]) for _ in range(120 if len(multi) else 0)]
        want += [rng.randrange(0, ncl) for _ in range(60)]
    want = sorted(set(c for c in want if 0 <= c < ncl))
    hull = None
    if mode == "hull":
        try:
            hull = np.sort(np.asarray(ch.graham_scan_lower(P), dtype=np.int64))
        except Exception:
            hull = None
    ranked_mode = enums.pick(kr.ClusterRanking, mode) if mode in SC_RANKED else None
    allscore = {}
    for c in want:
        a, b = int(first[c]), int(first[c + 1])
        cl = kn[a:b]
        lo = int(kn[a - 1]) if a > 0 else -BIGV
        hi = int(kn[b]) if b < K else BIGV
        idx = np.nonzero((res > lo) & (res < hi))[0][:8]
        w = {"c": c, "lo": lo, "hi": hi, "knees": [int(k) for k in cl], "score": [0] * len(cl), "hullSpan": True,
             "res": [int(v) for v in res[idx]], "prev": -BIGV, "next": BIGV}
        if len(idx):
            if idx[0] > 0:
                w["prev"] = int(res[idx[0] - 1])
            if idx[-1] < R - 1:
                w["next"] = int(res[idx[-1] + 1])
        if mode == "hull":
            if hull is not None:
                q = int(np.searchsorted(hull, cl[0], side="left"))
                w["hullSpan"] = bool(q < len(hull) and hull[q] <= cl[-1])
        elif len(cl) > 1:
            noise = None
            try:
                if mode == "corner":
                    vals = [0.5 * ((P[k][0] - P[k - 1][0]) * (P[k][1] - P[k + 1][1])) for k in cl]
                    noise = 1e-12 * max(max(abs(v) for v in vals), 1.0)
                    if any(math.isnan(v) or math.isinf(v) for v in vals):
                        noise = None
                else:
                    vals, noise = _sc_scores(P, [int(k) for k in cl], mode)
                    if noise is not None and "drift" not in meta:
                        lib = [float(v) for v in kr.smooth_ranking(P, cl, ranked_mode)]
                        if not all(numeric.close(x, y, rel=1e-9, ab=noise) for x, y in zip(vals, lib)):
                            meta["drift"] = ("many-clusters n=%d %s cluster %s: smooth_ranking gives %r, the independent score is %r"
                                             % (n, mode, w["knees"], lib, vals))
            except Exception:
                noise = None
            if noise is None:
                meta["skipped"] += 1
                w["score"] = [-1] * len(cl)
            else:
                meta["judged"] += 1
                w["score"] = numeric.ranks(vals, rel=1e-9, ab=noise)
        allscore[c] = w
        case["wins"].append(w)
    if full:                                           # the same call with full per-knee tables, for Trace_ClusterScale
        where = {int(k): j + 1 for j, k in enumerate(kn)}
        fc = {"id": cid, "mode": mode, "outcome": out, "knees": [int(k) for k in kn], "result": [int(v) for v in res],
              "pos": [where.get(int(v), 0) for v in res], "lab": labl, "score": [], "hullSpan": []}
        for c in range(ncl):
            w = allscore[c]
            fc["score"] += ([-1] * len(w["score"]) if mode == "hull" else w["score"])
            fc["hullSpan"].append(w["hullSpan"])
        meta["full"] = fc
    return case, meta


def big_inputs(ctx):
    """recipes with cluster counts just above 256 .. 65536 x 4 linkages x modes"""
    rng = ctx.rng
    plan = []                                                    # (groups, kinds, linkage, modes)
    links = LINKAGES[:]
    rng.shuffle(links)
    for q, linkage in enumerate(links):
        # more than 2^15 clusters with EVERY linkage (ranked modes / corner variant: every cluster is represented) and more than
        # 2^16 with two of them (quick; the pair changes with the seed) / all of them in all modes (thorough)
        if ctx.quick:
            plan.append((32769 + rng.randrange(0, 3000), ["triples", "triples", "pairs"], linkage, [rng.choice(SC_RANKED)]))
            if q < 2:
                plan.append((65537 + rng.randrange(0, 2000), ["singles"], linkage, [rng.choice(SC_RANKED + ["corner"])]))
        else:
            plan.append((32769 + rng.randrange(0, 3000), ["triples", "pairs", "loose"], linkage, MODES))
            plan.append((65537 + rng.randrange(0, 2000), ["singles", "singles", "pairs"], linkage, MODES))
    mids = [257, 1025, 4097, 10001, 16385]
    for th in (mids if ctx.quick else mids * 4 + [32769, 32769, 65537]):
        g = th + rng.randrange(0, max(2, th // 5))
        kinds = list(BIG_KINDS) if g < 4400 else ["triples", "singles", "pairs", "loose"] if g < 20000 else ["triples", "singles", "pairs"]
        plan.append((g, kinds, rng.choice(LINKAGES), [rng.choice(MODES)] if g < 30000 else ["hull"]))
    for _ in range(6 if ctx.quick else 40):                      # small enough for full tables: cross-check of the windows
        plan.append((rng.randrange(20, 400), list(BIG_KINDS), rng.choice(LINKAGES), [rng.choice(MODES)]))
    items = []
    k = 0
    for groups, kinds, linkage, modes in plan:
        for mode in modes:
            ks = {"kind": rng.choice(kinds), "groups": groups, "seed": rng.randrange(1 << 30)}
            ks["tau"] = rng.choice(BIG_KINDS[ks["kind"]]["taus"])
            n = int(_big_knees(ks)[-1]) + 2 + rng.randrange(0, 40)
            items.append(("b%d" % k, _big_recipe(rng, rng.choice(BIG_SHAPES), n), ks, linkage, mode))
            k += 1
    items.sort(key=lambda it: -it[2]["groups"])
    return items


BIG_STATIC = {"id": "static", "mode": "linear", "outcome": "returned", "K": 6, "R": 3, "ncl": 3, "strays": [],
              "pairs": [[4, 9], [9, 12]],
              "wins": [{"c": 0, "lo": -BIGV, "hi": 9, "knees": [3, 4, 5], "score": [0, 2, 1], "hullSpan": True, "res": [4], "prev": -BIGV, "next": 9},
                       {"c": 1, "lo": 5, "hi": 12, "knees": [9], "score": [0], "hullSpan": True, "res": [9], "prev": 4, "next": 12},
                       {"c": 2, "lo": 9, "hi": BIGV, "knees": [12, 13], "score": [1, 0], "hullSpan": True, "res": [12], "prev": 9, "next": BIGV}]}


def _big_selftests():
    import copy

    def mut(f, **top):
        c = copy.deepcopy(BIG_STATIC)
        c.update(top)
        f(c["wins"])
        return c
    out = [(BIG_STATIC, "ok")]
    out.append((mut(lambda w: w[0].update(res=[3])), "best-in-cluster"))
    out.append((mut(lambda w: w[0].update(res=[5]), mode="corner"), "corner-best"))
    out.append((mut(lambda w: w[0].update(res=[4, 5]), R=4), "one-per-cluster"))
    out.append((mut(lambda w: w[0].update(res=[4, 5])), "one-per-cluster"))
    out.append((mut(lambda w: w[1].update(res=[]), R=2), "one-per-cluster"))
    out.append((mut(lambda w: w[1].update(res=[])), "one-per-cluster"))
    out.append((mut(lambda w: [x.update(res=[]) for x in w], R=0, pairs=[]), "one-per-cluster"))      # nothing returned
    out.append((mut(lambda w: None, pairs=[[9, 4]]), "increasing-subset"))
    out.append((mut(lambda w: None, pairs=[[9, 9]]), "increasing-subset"))
    out.append((mut(lambda w: w[1].update(res=[10])), "increasing-subset"))
    out.append((mut(lambda w: None, strays=[{"v": 10, "below": 9, "above": 12}]), "increasing-subset"))
    out.append((mut(lambda w: w[1].update(prev=9)), "increasing-subset"))
    out.append((mut(lambda w: w[0].update(res=[5, 4])), "increasing-subset"))
    out.append((mut(lambda w: w[1].update(hullSpan=False), mode="hull"), "hull-unrepresented-cluster"))
    out.append((mut(lambda w: w[0].update(res=[3, 4]), mode="hull"), "hull-at-most-one"))
    out.append((mut(lambda w: None, mode="hull", R=4), "hull-at-most-one"))
    out.append((mut(lambda w: [w[0].update(res=[]), w[1].update(res=[]), w[2].update(prev=-BIGV)], mode="hull", R=1, pairs=[]), "ok"))
    out.append((mut(lambda w: None, outcome="raised:OverflowError"), "completes"))
    out.append((mut(lambda w: w[0].update(score=[0, -1, 1])), "malformed"))
    out.append((mut(lambda w: w[0].update(lo=3)), "malformed"))
    out.append((mut(lambda w: w[2].update(c=3)), "malformed"))
    out.append((mut(lambda w: w[0].update(score=[-1, -1, -1], res=[3])), "ok"))
    return out


def _big_judge(ctx, rec, selftest=None):
    """Trace_ClusterScaleWin on the windows of every call; Trace_ClusterScale on full tables of the small ones: both must
    reject the same calls."""
    import concurrent.futures as cf
    cases = [c for c, _ in rec if c is not None]
    fulls = [m["full"] for c, m in rec if c is not None and m.get("full")]
    with cf.ThreadPoolExecutor(max_workers=2) as ex:               # the two validators side by side
        fref = ex.submit(ctx.trace, "Trace_ClusterScale", fulls, chunk=400)
        rej = ctx.trace("Trace_ClusterScaleWin", cases, selftest=selftest, chunk=12)
        ref = fref.result()
    for cid, vs in rej.items():
        if vs[0][0] == "malformed":
            raise RuntimeError("many-clusters recorder produced malformed windows for %s: %s" % (cid, vs[0]))
    if fulls:
        ctx.traces -= len(fulls)                     # the same recorded calls, judged twice
        for f in fulls:
            a = rej.get(f["id"], [["ok"]])[0][0]
            b = ref.get(f["id"], [["ok"]])[0][0]
            if a != b:
                raise RuntimeError("Trace_ClusterScaleWin (%s) and Trace_ClusterScale (%s) disagree on %s" % (a, b, f["id"]))
        ctx.extra["scale_windows_cross_checked_with_full_tables"] = ctx.extra.get("scale_windows_cross_checked_with_full_tables", 0) + len(fulls)
    return rej


def _big_case(m):
    return {"scale": m["scale"], "big": m["big"], "linkage": m["linkage"], "mode": m["mode"], "cid": m["cid"]}


def run_big(ctx, rec):
    rej = _big_judge(ctx, rec, selftest=_big_selftests())
    st = {"calls": 0, "calls_dropped_for_a_tie": 0, "points": [10 ** 9, 0], "max_knees": 0, "max_clusters": 0, "cluster_counts": [],
          "calls_with_over_4096_clusters": 0, "calls_with_over_32768_clusters": 0, "calls_with_over_65536_clusters": 0,
          "by_mode": {}, "by_linkage": {}, "by_kind": {}, "by_shape": {}, "over_32768_clusters_by_linkage_and_mode": {},
          "windows": 0, "multi_member_clusters_ranked_in_windows": 0, "clusters_left_unranked_nan_or_ill_conditioned": 0}
    sm = None
    for c, m in rec:
        if "drift" in m:
            ctx.note("DRIFT: " + m["drift"][:300])
        if c is None:
            st["calls_dropped_for_a_tie"] += 1
            continue
        st["calls"] += 1
        st["points"] = [min(st["points"][0], m["n"]), max(st["points"][1], m["n"])]
        st["max_knees"] = max(st["max_knees"], m["K"])
        st["max_clusters"] = max(st["max_clusters"], m["ncl"])
        st["cluster_counts"].append(m["ncl"])
        for th in (4096, 32768, 65536):
            st["calls_with_over_%d_clusters" % th] += m["ncl"] > th
        if m["ncl"] > 32768:
            key = "%s/%s" % (m["linkage"], m["mode"])
            st["over_32768_clusters_by_linkage_and_mode"][key] = st["over_32768_clusters_by_linkage_and_mode"].get(key, 0) + 1
        for key, v in (("by_mode", m["mode"]), ("by_linkage", m["linkage"]), ("by_kind", m["big"]["kind"]), ("by_shape", m["scale"]["shape"])):
            st[key][v] = st[key].get(v, 0) + 1
        st["windows"] += len(c["wins"])
        st["multi_member_clusters_ranked_in_windows"] += m["judged"]
        st["clusters_left_unranked_nan_or_ill_conditioned"] += m["skipped"]
        ctx.count((m["scale"], m["big"], m["linkage"], m["mode"]), m["multi"] > 0)
        if sm is None and m["ncl"] > 32768 and c["outcome"] == "returned":
            sm = (c, m)
    st["cluster_counts"].sort()
    ctx.extra["scale_many_clusters"] = st
    meta = {m["cid"]: m for _, m in rec}
    for cid, vs in rej.items():
        m = meta[cid]
        ctx.violation(vs[0][0], _big_case(m), {"verdict": vs[0], "error": m.get("error"), "n": m["n"], "knees": m["K"], "clusters": m["ncl"],
                                               "linkage": m["linkage"], "t": m["t"]}, match="%s:%s" % (vs[0][0], m["mode"]))
    if sm:
        c, m = sm
        ctx.sample({"binding": "T (scale, many clusters)", "call": {k: v for k, v in m.items() if k not in ("full", "judged", "skipped", "tie")},
                    "case": dict(c, wins=c["wins"][:3])})


def _record_scaleish(item):
    return _record_big(item) if len(item) == 5 else _record_scale(item)


def run(ctx):
    ctx.rule = ("curves n=8..80 (random families, adversarial, bundled-trace windows) x interior knee subsets (all sizes 2..5 "
                "sampled for n<=10, random subsets and adjacent runs above) x 4 linkages x t in {0.05,0.1,0.2,0.5,1,1.5} x "
                "{left, linear, right, hull, corner variant}.  non-trivial: at least one multi-member cluster.  "
                "scale: curves of 300..10^5 points (sizes just above 256/1024/4096/10^4/16384/32768/65536/10^5 and ~2*10^4; jittered "
                "lines, textured piecewise-linear trends, miss-ratio-like, staircases, convex corners, valley, spikes, random walks; "
                "unit / ragged x, float / int64) x knee layouts (structural points, 3..9 knees thousands of points apart, adjacent "
                "runs, up to 900 random knees) x 4 linkages x t in {0.002..1.5} x the 5 modes, every clause, scores recomputed in "
                "extended precision on the complete segments, judged by Trace_ClusterScale.  scale, many clusters: curves of 10^2..2*10^5 "
                "points whose knees form 20 .. more than 65536 clusters of 1..5 knees (counts just above 256/1024/4096/10^4/16384 and, with "
                "EVERY linkage, above 32768 and above 65536; five group layouts, tau/(x range) thresholds far from ties, the 5 modes), "
                "labels from an independent transcription of the four threshold rules, judged by Trace_ClusterScaleWin on the totals "
                "(returned = clusters) and on a few hundred cluster windows per call (fixed, random, around ids 2^7..2^16, and wherever "
                "the result holds a stray / descending index or a cluster span without exactly one kept knee)")
    ctx.assumptions += numeric.ASSUMPTIONS + [
        "cluster labels come from the same linkage function on points[knees] (C11 vouches for it); the ranking score is "
        "recomputed independently (squared Pearson correlation of the left/right segment within the cluster x relative "
        "height below the cluster peak) and compared with knee_ranking.smooth_ranking as a DRIFT note; hull indices from "
        "convex_hull.graham_scan_lower (C18 vouches for it)",
        "clusters whose score vector contains NaN/inf (numpy.corrcoef on a constant slice) are judged structurally only",
        "scale family: the score is recomputed in extended precision (two-pass centred sums over every point of the segment); "
        "two scores of a cluster closer than max(1e-9, 16*m*eps*(conditioning of the centrings)) x the largest weight share a "
        "rank, clusters where that bound exceeds 1e-6 (nearly constant segments) or with NaN scores are judged structurally "
        "only; hull mode at scale uses the library's own lower hull for the span table (C18 vouches for it at scale)",
        "scale family, many clusters: one-per-cluster / increasing-subset / hull-at-most-one are judged on the totals and on every "
        "cluster the recorder's linear scan finds suspicious (complete for these clauses); best-in-cluster / corner-best / "
        "hull-unrepresented-cluster on a SAMPLE of a few hundred clusters per call; a call whose clustering has a decision within "
        "1e-9 (relative) of its threshold is dropped"]
    ctx.mc("ClusterFilter", "MC_ClusterFilter" if ctx.quick else "MC_ClusterFilter_5",
           need_actions=("Singleton", "KeepBest", "HullSkip", "HullChoice", "Return"), timeout=1800)
    ctx.mc("ClusterFilter", "MC_ClusterFilter_worst", expect="ClusterOk")
    items = inputs(ctx)
    rec = par.pmap(_record, items)
    cases = [c for c, _ in rec]
    meta = {c["id"]: m for c, m in rec}
    sitems, ssizes = scale_inputs(ctx)
    bitems = big_inputs(ctx)
    arec = par.pmap(_record_scaleish, bitems + sitems, chunksize=1)     # the long calls first
    brec, srec = arec[:len(bitems)], arec[len(bitems):]
    xs = [c for c, _ in srec if len(c["knees"]) <= XSMALL]           # cross-check of Trace_ClusterScale, same TLC runs
    rej = ctx.trace("Trace_Cluster", cases + xs, selftest=_selftests(), chunk=600)
    ctx.traces -= len(xs)
    ref = {c["id"]: rej.pop(c["id"]) for c in xs if c["id"] in rej}
    for c in cases:
        if "drift" in meta[c["id"]]:
            ctx.note("DRIFT: " + meta[c["id"]]["drift"][:300])
    for c in cases:
        m = meta[c["id"]]
        multi = len(set(c["lab"])) < len(c["lab"])
        ctx.count((m["points"], m["knees"], m["linkage"], m["t"], m["mode"]), multi)
    for cid, vs in rej.items():
        m = meta[cid]
        ctx.violation(vs[0][0], {"points": m["points"], "knees": m["knees"], "linkage": m["linkage"], "t": m["t"], "mode": m["mode"], "cid": m["cid"]},
                      {"verdict": vs[0], "error": m.get("error")}, match="%s:%s" % (vs[0][0], m["mode"]))
    sm = next(c for c in cases if len(set(c["lab"])) < len(c["lab"]) and len(c["knees"]) <= 6)
    ctx.sample({"binding": "T", "call": {k: v for k, v in meta[sm["id"]].items() if k != "points"}, "case": sm})
    run_scale(ctx, ssizes, srec, ref)
    run_big(ctx, brec)


def replay(ctx, obj):
    c = obj["case"]
    if "big" in c:
        case, m = _record_big((c.get("cid", "replay"), c["scale"], c["big"], c["linkage"], c["mode"]))
        for cid, vs in _big_judge(ctx, [(case, m)]).items():
            ctx.violation(vs[0][0], c, {"verdict": vs[0], "error": m.get("error"), "n": m["n"], "knees": m["K"], "clusters": m["ncl"]})
        return
    if "scale" in c:
        case, m = _record_scale((c.get("cid", "replay"), c["scale"], c["knees"], c["linkage"], c["t"], c["mode"]))
        for cid, vs in _scale_judge(ctx, [case]).items():
            ctx.violation(vs[0][0], c, {"verdict": vs[0], "error": m.get("error"), "n": m["n"], "knees": len(m["knees"])})
        return
    case, m = _record((c.get("cid", "replay"), c["points"], c["knees"], c["linkage"], c["t"], c["mode"]))
    rej = ctx.trace("Trace_Cluster", [case])
    for cid, vs in rej.items():
        ctx.violation(vs[0][0], c, {"verdict": vs[0], "error": m.get("error")})
