"""C03 - every single-knee detector finds the corner of an exact two-slope elbow.
M: Elbow.tla - the mechanism lemmas (only the corner triple turns; the two end-point lines have zero residual only
   when split at the corner) checked with exact integer arithmetic on every generated member of the family.
G: every generated elbow replayed into curvature.knee, dfdt.knee, menger.knee, lmethod.knee (Fit x Refinement),
   lmethod.get_knee (Fit x Cost) and kneedle.knee(t=0) on monotone members; expected answer = the corner index.
T: harness-generated long elbows (arms up to 40, random spacings, all slope pairs) are first validated as members of
   the family by TLC (Trace_Elbow) and then replayed the same way.
S: production-size elbows (257 .. 110 000 points; sizes straddling 2^8 .. 2^16, 10^4, 10^5) given by a compact description
   (arm lengths, tiled spacing patterns, slopes, offset), replayed into every detector the property names (the L-method,
   which is quadratic, on the smaller sizes) and admitted + judged by TLC (Trace_ElbowScale) from the description, sparse
   samples of the replayed array and the answers."""
import fractions

import numpy as np

from harness import growth, monitor, numeric, par, scale


def _detect(item):
    """item: (pts [[x,y8],...], corner, mono) -> list of (clause, detail)"""
    import kneeliverse.curvature as cu
    import kneeliverse.dfdt as df
    import kneeliverse.menger as me
    import kneeliverse.lmethod as lm
    import kneeliverse.kneedle as kn
    pts, corner, mono = item
    P = np.array([[p[0], p[1] / 8.0] for p in pts], float)
    n = len(P)
    calls = [("curvature", cu.knee, (P,)), ("dfdt", df.knee, (P,)), ("menger", me.knee, (P,))]
    for f in lm.Fit:
        for r in lm.Refinement:
            calls.append(("lmethod.knee(%s,%s)" % (f, r), lm.knee, (P, f, r)))
        for c in lm.Cost:
            calls.append(("lmethod.get_knee(%s,%s)" % (f, c), lm.get_knee, (P[:, 0], P[:, 1], f, c)))
    if mono:
        calls.append(("kneedle(t=0)", kn.knee, (P, 0)))
    if all(p[1] % 8 == 0 for p in pts):          # integral heights: the same elbow stored as an int64 array
        PI = P.astype(np.int64)
        calls += [("curvature[int64]", cu.knee, (PI,)), ("dfdt[int64]", df.knee, (PI,)), ("menger[int64]", me.knee, (PI,)),
                  ("lmethod.knee(pointfit,adjusted)[int64]", lm.knee, (PI,))]
        if mono:
            calls.append(("kneedle(t=0)[int64]", kn.knee, (PI, 0)))
    bad = []
    for name, fn, args in calls:
        out, v, _ = monitor.call(fn, args, budget=5000 * n + 50000, wall=30)
        if out != "returned":
            bad.append(("terminates" if out in ("budget", "watchdog") else "returns", {"detector": name, "outcome": out, "error": v}))
            continue
        if isinstance(v, tuple):
            v = v[0]
        if v is None or int(v) != corner:
            bad.append(("corner(%s)" % name.split("(")[0].split(".")[0], {"detector": name, "got": None if v is None else int(v), "corner": corner}))
    return bad


def _long_elbows(rng, count):
    out = []
    for k in range(count):
        a, b = rng.randint(3, 40), rng.randint(3, 40)
        if k < max(6, count // 25):          # a few very long, unbalanced elbows (arm lengths are unbounded in the property)
            a, b = rng.choice([(rng.randint(3, 45), rng.randint(300, 520)), (rng.randint(300, 520), rng.randint(3, 45)),
                               (rng.randint(200, 300), rng.randint(200, 300))])
        dxs = [rng.randint(1, 4) for _ in range(a + b)]
        if k % 5 == 1:       # a short arm whose first step from the corner is the widest (midpoints in x and in index differ)
            if rng.random() < 0.7:
                a, b = rng.randint(9, 30), rng.randint(3, 5)
                dxs = [rng.randint(1, 2) for _ in range(a)] + [rng.choice([3, 4])] + [1] * (b - 1)
            else:
                a, b = rng.randint(3, 5), rng.randint(9, 30)
                dxs = [1] * (a - 1) + [rng.choice([3, 4])] + [rng.randint(1, 2) for _ in range(b)]
        s1, s2 = rng.sample(range(-64, 65), 2)
        if k % 7 == 3:
            s1, s2 = rng.choice([(0, s2 or 5), (s1 or -7, 0)])      # one flat arm
        off8 = rng.choice([0, 4, 8 * 4096, 2, 1, 8 * 17])
        x, y = 0, off8
        pts = [[x, y]]
        for i, d in enumerate(dxs):
            x += d
            y += (s1 if i < a else s2) * d
            pts.append([x, y])
        ys = [p[1] for p in pts]
        mono = all(ys[i] <= ys[i + 1] for i in range(len(ys) - 1)) or all(ys[i] >= ys[i + 1] for i in range(len(ys) - 1))   # weakly monotone (a flat arm counts)
        out.append({"id": "L%d" % k, "pts": pts, "corner": a, "mono": mono})
    return out


# ------------------------------------------------------------------------------------------------------------------
# S: the scale family.  A curve is a compact, JSON-able description
#    {"a", "b": arm lengths in segments, "pat1", "pat2": spacing patterns over 1..4 tiled along each arm,
#     "s1", "s2": slopes in eighths, "off8": offset in eighths}            corner index = a, n = a + b + 1 points
# which is what TLC (Trace_ElbowScale) sees, together with sparse samples of the array that was replayed.
NEAR = [(64, 63), (63, 64), (-64, -63), (-63, -64), (-32, -33), (-33, -32), (32, 33), (33, 32),       # 8 vs 7.875, -4 vs -4.125
        (64, 56), (56, 64), (-56, -64), (-64, -56), (-32, -40), (16, 15), (-8, -9), (2, 1), (-1, -2)]
SHARP = [(64, 1), (1, 64), (-64, -1), (-1, -64), (64, 8), (8, 64), (-64, -8), (-8, -64), (40, 3)]
VEE = [(64, -64), (-64, 64), (-8, 8), (5, -3), (63, -64), (-1, 1), (16, -56)]
FLAT = [(0, 5), (-7, 0), (0, -64), (64, 0), (0, 8), (8, 0), (0, -1)]
FORCED = [(64, 63), (63, 64), (-64, -63), (-63, -64), (-32, -33), (-33, -32)]      # every orientation of a faint steep corner
PATS = [[1], [1], [4], [2], [3], [1, 3], [1, 2, 3, 4], [4, 1, 1], [2, 4], [4, 4, 4, 1]]
KNEEDLE_STEP = 1e-13     # smallest step of the normalised difference curve that still pins Kneedle's peak (noise is < 1e-15)
LM_POINT = 4.0e-9        # rough seconds per (n^2) of one L-method pass, point fit / best fit: used only to order and size the work
LM_BEST = 4.5e-8


def _scale_build(cv):
    a, b = cv["a"], cv["b"]
    dx = np.concatenate([np.resize(np.array(cv["pat1"], float), a), np.resize(np.array(cv["pat2"], float), b)])
    sl = np.concatenate([np.full(a, float(cv["s1"])), np.full(b, float(cv["s2"]))])
    x = np.concatenate([[0.0], np.cumsum(dx)])
    y8 = float(cv["off8"]) + np.concatenate([[0.0], np.cumsum(dx * sl)])        # integers far below 2^53: exact
    return np.ascontiguousarray(np.column_stack([x, y8 / 8.0]))


def _scale_member(cv, P):
    """The harness's own whole-array test (TLC sees the description and sparse samples only): exact representation,
    spacings in 1..4 and no turning triple but the corner's."""
    a, n = cv["a"], len(P)
    x, y8 = P[:, 0], P[:, 1] * 8.0
    if n != a + cv["b"] + 1 or not (np.all(x == np.round(x)) and np.all(y8 == np.round(y8)) and np.abs(y8).max() < 2.0 ** 40):
        return False
    dx = np.diff(x)
    if not (np.all(dx >= 1) and np.all(dx <= 4)):
        return False
    cr = dx[:-1] * np.diff(y8)[1:] - np.diff(y8)[:-1] * dx[1:]                 # exact: small integers times integers < 2^40
    turning = np.nonzero(cr)[0] + 1
    if not (len(turning) == 1 and turning[0] == a):
        return False
    if cv["pat1"] == [1] and cv["pat2"] == [1] and cv["off8"] == 0 and min(cv["s1"], cv["s2"]) >= 0:
        return bool(np.array_equal(P, scale.elbow(n, a, cv["s1"] / 8.0, cv["s2"] / 8.0)))     # the shared builder, same curve
    return True


def _scale_mono(cv):
    return cv["s1"] * cv["s2"] >= 0


def _kneedle_pinned(cv, P):
    """Kneedle's difference curve of a monotone elbow moves, per unit of x, by |arm slope - chord slope| / |y range| in
    normalised units.  When that is within a few hundred ulps of 1 the peak is a rounding tie that pins nothing."""
    F = fractions.Fraction
    xr = F(int(P[-1, 0] - P[0, 0]))
    yr = F(int(round((P[-1, 1] - P[0, 1]) * 8)), 8)
    if yr == 0:
        return False
    chord = yr / xr
    step = min(abs(F(cv["s1"], 8) - chord), abs(F(cv["s2"], 8) - chord)) / abs(yr)
    return step >= F(KNEEDLE_STEP)


def _scale_calls(cv, group, P):
    import kneeliverse.curvature as cu
    import kneeliverse.dfdt as df
    import kneeliverse.menger as me
    import kneeliverse.lmethod as lm
    import kneeliverse.kneedle as kn
    integral = cv["s1"] % 8 == 0 and cv["s2"] % 8 == 0 and cv["off8"] % 8 == 0
    mono = _scale_mono(cv)
    calls, skipped = [], []
    g = group.split("|")
    if g[0] == "lin":
        calls = [("curvature", cu.knee, (P,)), ("dfdt", df.knee, (P,)), ("menger", me.knee, (P,))]
        pinned = mono and _kneedle_pinned(cv, P)
        if pinned:
            calls.append(("kneedle(t=0)", kn.knee, (P, 0)))
        elif mono:
            skipped.append("kneedle(t=0)")
        if integral:
            PI = P.astype(np.int64)
            calls += [("curvature[int64]", cu.knee, (PI,)), ("dfdt[int64]", df.knee, (PI,)), ("menger[int64]", me.knee, (PI,))]
            if pinned:
                calls.append(("kneedle(t=0)[int64]", kn.knee, (PI, 0)))
    else:
        fit = {str(f): f for f in lm.Fit}[g[1]]
        A = P.astype(np.int64) if g[-1] == "int64" else P
        tag = "[int64]" if g[-1] == "int64" else ""
        if g[2] == "knee":
            r = {str(r): r for r in lm.Refinement}[g[3]]
            calls = [("lmethod.knee(%s,%s)%s" % (fit, r, tag), lm.knee, (A, fit, r))]
        else:
            c = {str(c): c for c in lm.Cost}[g[3]]
            calls = [("lmethod.get_knee(%s,%s)%s" % (fit, c, tag), lm.get_knee, (A[:, 0], A[:, 1], fit, c))]
    return calls, skipped


def _scale_item(item):
    """(description, group) -> {"answers": [[detector, index or -1]], "bad": [(clause, detail)], "samples": [[i, x, y8]],
    "skipped": [...], "member": bool}"""
    cv, group = item
    P = _scale_build(cv)
    n = len(P)
    out = {"answers": [], "bad": [], "skipped": [], "member": _scale_member(cv, P), "samples": []}
    if not out["member"]:
        return out
    calls, out["skipped"] = _scale_calls(cv, group, P)
    for name, fn, args in calls:
        o, v, _ = monitor.call(fn, args, budget=monitor.quad(n, 8), wall=int(300 + 2e-6 * n * n))
        if o != "returned":
            out["bad"].append(("terminates" if o in ("budget", "watchdog") else "returns", {"detector": name, "outcome": o, "error": v}))
            continue
        if isinstance(v, tuple):
            v = v[0]
        try:
            got = -1 if v is None else int(v)
        except Exception:
            out["bad"].append(("returns", {"detector": name, "outcome": "returned a non-index", "error": repr(v)[:80]}))
            continue
        out["answers"].append([name, got if 0 <= got < n else -1 if got < 0 else n])
    want = {0, cv["a"] - 1, cv["a"], cv["a"] + 1, n - 1}
    for _, got in out["answers"]:
        want |= {k for k in (got - 1, got, got + 1) if 0 <= k < n}
    for k in (n // 3, (2 * n) // 3, max(0, min(n - 1, 4096)), max(0, min(n - 1, 32768)), max(0, min(n - 1, 65536))):
        want.add(k)
    out["samples"] = [[k, int(P[k, 0]), int(round(P[k, 1] * 8))] for k in sorted(want)]
    return out


def _scale_groups(cv, lm_fits):
    integral = cv["s1"] % 8 == 0 and cv["s2"] % 8 == 0 and cv["off8"] % 8 == 0
    gs = []
    for fit in lm_fits:
        gs += ["lm|%s|knee|%s" % (fit, r) for r in ("none", "original", "adjusted")]
        gs += ["lm|%s|get_knee|%s" % (fit, c) for c in ("rss", "rmse")]
        if fit == "pointfit" and integral:
            gs.append("lm|pointfit|knee|adjusted|int64")
    return gs


def _scale_cost(cv, group):
    n = cv["a"] + cv["b"] + 1
    if group == "lin":
        return 1e-5 * n
    return (LM_BEST if "|bestfit|" in group else LM_POINT) * n * n * (2 if "|knee|" in group and "|none" not in group else 1)


def _scale_curve(rng, n, pair=None, place=None):
    m = n - 1
    place = place or rng.choice(["short-left", "short-right", "fifth", "half", "four-fifths", "seam", "any"])
    if place == "short-left":
        a = rng.randint(3, 9)
    elif place == "short-right":
        a = m - rng.randint(3, 9)
    elif place in ("fifth", "half", "four-fifths"):
        a = int(m * {"fifth": 0.2, "half": 0.5, "four-fifths": 0.8}[place]) + rng.randint(-7, 7)
    elif place == "seam":       # the corner on, just before or just after a typical block / index-width boundary
        ts = [t + o for t in scale.THRESHOLDS for o in (-1, 0, 1) if 3 <= t + o <= m - 3]
        a = rng.choice(ts) if ts else m // 2
    else:
        a = rng.randint(3, m - 3)
    a = max(3, min(m - 3, a))
    if pair is None:
        pool = rng.choice([NEAR, NEAR, SHARP, VEE, FLAT, None])
        pair = rng.choice(pool) if pool else tuple(rng.sample(range(-64, 65), 2))
    pats = []
    for _ in range(2):
        if rng.random() < 0.35:
            pats.append([rng.randint(1, 4) for _ in range(rng.choice([5, 7, 13, 31, 61, 97]))])
        else:
            pats.append(list(rng.choice(PATS)))
    if rng.random() < 0.4:
        pats[1] = list(pats[0])
    return {"a": a, "b": m - a, "s1": pair[0], "s2": pair[1], "off8": rng.choice([0, 0, 4, 8 * 4096, 2, 1, 8 * 17, 8 * 1024]),
            "pat1": pats[0], "pat2": pats[1]}


def _scale_plan(ctx):
    """[(description, [groups])]: every curve goes through the linear-time detectors; the L-method (quadratic: about 4 ns x n^2
    per pass in point-fit mode, ten times that with polyfit) gets its own, smaller, sizes."""
    rng, q = ctx.rng, ctx.quick
    plan = []
    lin_sizes = scale.sizes(ctx, lo=257, hi=110000, k_quick=6, k_thorough=16)
    for n in lin_sizes:
        for _ in range(5 if q else 12):
            plan.append((_scale_curve(rng, n), ["lin"]))
    top = lin_sizes[-1]                       # always > 10^5: faint steep corners in every orientation, long spacings
    for pair in FORCED:
        for place in (["fifth", "four-fifths"] if q else ["fifth", "half", "four-fifths", "seam"]):
            cv = _scale_curve(rng, top, pair=pair, place=place)
            plan.append((cv, ["lin"]))
    pf_sizes = scale.sizes(ctx, lo=1000, hi=20500 if q else 70000, k_quick=3, k_thorough=7)
    for n in pf_sizes:
        big = n > (12000 if q else 30000)
        for k in range(1 if big else 2):
            cv = _scale_curve(rng, n, pair=rng.choice(NEAR + SHARP) if k == 0 else None)
            plan.append((cv, ["lin"] + _scale_groups(cv, ["pointfit"])))
    bf_sizes = scale.sizes(ctx, lo=257, hi=4200 if q else 17000, k_quick=3, k_thorough=6)
    for n in bf_sizes:
        big = n > 9000
        for k in range(1 if big else 2):
            cv = _scale_curve(rng, n, pair=rng.choice(NEAR + SHARP) if k == 0 else None)
            plan.append((cv, ["lin"] + _scale_groups(cv, ["bestfit"] if n > 2100 else ["bestfit", "pointfit"])))
    for k, (cv, _) in enumerate(plan):
        cv["id"] = "S%d" % k
    return plan, {"linear": lin_sizes, "lmethod_pointfit": pf_sizes, "lmethod_bestfit": bf_sizes}


def _scale_case(cv, group, res):
    c = {k: cv[k] for k in ("a", "b", "s1", "s2", "off8", "pat1", "pat2")}
    c.update(id="%s/%s" % (cv["id"], group), mono=_scale_mono(cv), samples=res["samples"],
             answers=[{"d": d, "got": g, "mono_only": d.startswith("kneedle")} for d, g in res["answers"]])
    return c


def _scale_selftests():
    cv = {"id": "st", "a": 5, "b": 4, "s1": 8, "s2": 3, "off8": 4, "pat1": [1, 3], "pat2": [2]}
    P = _scale_build(cv)
    smp = [[k, int(P[k, 0]), int(round(P[k, 1] * 8))] for k in range(len(P))]
    ok = _scale_case(cv, "lin", {"samples": smp, "answers": [["curvature", 5], ["kneedle(t=0)", 5]]})
    wrong = dict(ok, answers=[{"d": "curvature", "got": 6, "mono_only": False}])
    none = dict(ok, answers=[{"d": "kneedle(t=0)", "got": -1, "mono_only": True}])
    short = dict(ok, b=2)
    steep = dict(ok, s1=65)
    moved = dict(ok, samples=[s if s[0] != 7 else [7, s[1], s[2] + 1] for s in smp])
    sparse = dict(ok, samples=[s for s in smp if s[0] != 4])
    vee = dict(ok, s2=-3, mono=False, samples=[[k, x, y if k <= 5 else 2 * smp[5][2] - y] for k, x, y in smp])
    return [(ok, "ok"), (wrong, "corner"), (none, "corner"), (short, "not-in-family"), (steep, "not-in-family"),
            (moved, "sample-mismatch"), (sparse, "sample-missing"), (vee, "outside-quantifier"), (dict(ok, mono=False), "mono-flag")]


def _scale(ctx, seen):
    plan, sizes = _scale_plan(ctx)
    items = [(cv, g) for cv, gs in plan for g in gs]
    order = sorted(range(len(items)), key=lambda k: -_scale_cost(*items[k]))          # longest first, one item per task
    res = [None] * len(items)
    for k, r in zip(order, par.pmap(_scale_item, [items[k] for k in order], chunksize=1)):
        res[k] = r
    outside = [cv["id"] for (cv, g), r in zip(items, res) if not r["member"]]
    if outside:
        raise RuntimeError("harness built a scale curve outside the elbow family: %s" % outside[:3])
    cases = [_scale_case(cv, g, r) for (cv, g), r in zip(items, res) if r["answers"]]
    rej = ctx.trace("Trace_ElbowScale", cases, selftest=_scale_selftests(), chunk=400)
    byid = {"%s/%s" % (cv["id"], g): (cv, g) for cv, g in items}
    calls = {}
    for (cv, g), r in zip(items, res):
        for d, _ in r["answers"]:
            calls[d.split("(")[0]] = calls.get(d.split("(")[0], 0) + 1
        for clause, detail in r["bad"]:
            key = (clause, detail.get("detector"))
            seen[key] = seen.get(key, 0) + 1
            if seen[key] <= 2:
                ctx.violation(clause, {"scale": {k: v for k, v in cv.items()}, "group": g}, detail, match="%s:%s" % key)
    for cid, verdicts in sorted(rej.items()):
        cv, g = byid[cid]
        for v in verdicts:
            if v[0] != "corner":
                raise RuntimeError("Trace_ElbowScale did not admit a harness-built case %s: %s" % (cid, v))
            d, got = v[1], v[2]
            clause = "corner(%s)" % d.split("(")[0].split(".")[0]
            key = (clause, d)
            seen[key] = seen.get(key, 0) + 1
            if seen[key] <= 2:
                ctx.violation(clause, {"scale": {k: v for k, v in cv.items()}, "group": g},
                              {"detector": d, "got": None if got < 0 else got, "corner": cv["a"], "points": cv["a"] + cv["b"] + 1},
                              match="%s:%s" % key)
    near_tie = 0
    for cv, gs in plan:
        ctx.count(("S", {k: v for k, v in cv.items() if k != "id"}), True)
    for (cv, g), r in zip(items, res):
        near_tie += len(r["skipped"])
    big = max(plan, key=lambda p: p[0]["a"] + p[0]["b"])[0]
    ctx.sample({"binding": "T (scale)", "elbow": big, "points": big["a"] + big["b"] + 1,
                "answers": [r["answers"] for (cv, g), r in zip(items, res) if cv is big and g == "lin"][0]})
    ctx.extra["scale"] = {"sizes": sizes, "curves": len(plan), "replays_by_detector": calls,
                          "largest_lmethod_replay": {f: max([cv["a"] + cv["b"] + 1 for cv, g in items if "|%s|" % f in g] or [0])
                                                     for f in ("pointfit", "bestfit")},
                          "kneedle_near_tie_not_judged": near_tie}
    ctx.note("scale: the L-method is quadratic, so it is replayed on elbows of at most %d (point fit) / %d (best fit) points in "
             "this tier; the linear-time detectors go up to %d points.  Kneedle is not judged on a monotone elbow whose "
             "normalised difference curve moves by less than %.0e per unit of x (%d such replays here)"
             % (ctx.extra["scale"]["largest_lmethod_replay"]["pointfit"], ctx.extra["scale"]["largest_lmethod_replay"]["bestfit"],
                sizes["linear"][-1], KNEEDLE_STEP, near_tie))


# ------------------------------------------------------------------------------------------------------------------
# X: small exact elbows (20 .. 80 points) TRANSLATED IN X by an exact power of two, one arm of minimal length.  Same compact
#    description as the scale family plus "xoff"; admitted and judged by TLC (Trace_ElbowScaleShift = Trace_ElbowScale after
#    moving the samples back by xoff).  Far from the origin a comparison of abscissae with a RELATIVE tolerance, a product
#    m*x or a Vandermonde column loses the short arm; the exact answer does not move (the property's curve is translated).
XS_OFFSETS = [2 ** 20, 2 ** 24, 2 ** 27, 2 ** 30]
XS_PAIRS = [(4, -2), (-2, 4), (4, 2), (-4, 2), (2, -4), (12, -6), (4, 6)]          # 1/2 and -1/4 and relatives: dyadic, not integral
XS_EPS = 2.0 ** -52


def _xs_build(cv):
    P = _scale_build(cv)
    P[:, 0] += float(cv["xoff"])                          # integers below 2^31: exact
    return np.ascontiguousarray(P)


def _xs_rss(x, y8, p, q, fit):
    """exact residual sum of squares (as a float, relative error ~1e-16) of the end-point / least-squares line of the points
    p..q of the UNTRANSLATED curve (python / int64 integers only; heights in eighths, relative to the first point)"""
    xs = x[p:q + 1] - x[p]
    ys = y8[p:q + 1] - y8[p]
    if fit == "pointfit":
        DX, DY = int(xs[-1]), int(ys[-1])
        num = ys * DX - DY * xs                            # |.| < 10^8: squares and their sum are exact in int64
        return float(fractions.Fraction(int(np.sum(num * num)), DX * DX * 64))
    N, sx, sy = len(xs), int(xs.sum()), int(ys.sum())
    sxx, sxy, syy = int((xs * xs).sum()), int((xs * ys).sum()), int((ys * ys).sum())
    Sxx, Sxy, Syy = N * sxx - sx * sx, N * sxy - sx * sy, N * syy - sy * sy
    return float(fractions.Fraction(Syy * Sxx - Sxy * Sxy, Sxx * N * 64))


def _xs_pinned(x, y8, a, fit, cost, noise):
    """Is the arg-min of the L-method cost over the splits 2 .. len-3 of this (sub-)curve decided beyond rounding noise?
    `noise` bounds |computed sqrt(RSS) - exact sqrt(RSS)| of one fitted arm.  The exact cost is 0 at the corner; a split i
    is certainly costlier than the corner when the cost of (sqrt(RSS) - noise) exceeds 4 x the cost of (noise, noise)."""
    m = len(x)
    if not 2 <= a <= m - 3:
        return False
    length = float(x[-1] - x[0])

    def c(i, sl, sr):
        lr, rr = float(x[i] - x[0]) / length, float(x[-1] - x[i]) / length
        if cost == "rmse":
            return lr * (sl * sl * lr) ** 0.5 + rr * (rr * sr * sr) ** 0.5
        return sl * sl * lr + sr * sr * rr
    top = 4.0 * c(a, noise, noise) * (1 + 1e-9)
    for i in range(2, m - 2):
        if i == a:
            continue
        sl, sr = _xs_rss(x, y8, 0, i, fit) ** 0.5, _xs_rss(x, y8, i, m - 1, fit) ** 0.5
        if not c(i, max(0.0, sl - noise), max(0.0, sr - noise)) * (1 - 1e-9) > top:
            return False
    return True


def _xs_calls(cv, P):
    import kneeliverse.curvature as cu
    import kneeliverse.dfdt as df
    import kneeliverse.menger as me
    import kneeliverse.lmethod as lm
    import kneeliverse.kneedle as kn
    a, n = cv["a"], len(P)
    integral = cv["s1"] % 8 == 0 and cv["s2"] % 8 == 0 and cv["off8"] % 8 == 0
    mono = _scale_mono(cv)
    calls, skipped = [("curvature", cu.knee, (P,)), ("dfdt", df.knee, (P,)), ("menger", me.knee, (P,))], []
    P0 = _scale_build(cv)
    pinned = mono and _kneedle_pinned(cv, P0)              # Kneedle normalises x - min(x): the translation cancels exactly
    if pinned:
        calls.append(("kneedle(t=0)", kn.knee, (P, 0)))
    elif mono:
        skipped.append("kneedle(t=0)")
    x = np.round(P0[:, 0]).astype(np.int64)
    y8 = np.round(P0[:, 1] * 8).astype(np.int64)
    big = 8.0 * float(P[-1, 0]) + float(np.abs(P[:, 1]).max())       # |m| x + |b|: what one evaluated ordinate is made of
    noise = {"pointfit": 8 * n ** 0.5 * XS_EPS * big, "bestfit": 64 * n ** 0.5 * XS_EPS * big}
    # the (sub-)curves lmethod.knee scans when every scan answers the corner: whole curve, then x[0:cutoff+1]
    cut = {"none": None, "adjusted": max(10, int((a + n) / 2.0)), "original": max(10, min(2 * a, n))}
    memo = {}

    def pin(fit, cost, upto):
        m = n if upto is None else min(n, upto + 1)
        key = (fit, cost, m)
        if key not in memo:
            memo[key] = _xs_pinned(x[:m], y8[:m], a, fit, cost, noise[fit])
        return memo[key]
    PI = P.astype(np.int64) if integral else None
    for f in lm.Fit:
        for r in lm.Refinement:
            name = "lmethod.knee(%s,%s)" % (f, r)
            if pin(str(f), "rmse", None) and pin(str(f), "rmse", cut[str(r)]):
                calls.append((name, lm.knee, (P, f, r)))
                if integral and (str(f) == "pointfit" or str(r) == "none"):
                    calls.append((name + "[int64]", lm.knee, (PI, f, r)))
            else:
                skipped.append(name)
        for c in lm.Cost:
            name = "lmethod.get_knee(%s,%s)" % (f, c)
            if pin(str(f), str(c), None):
                calls.append((name, lm.get_knee, (P[:, 0], P[:, 1], f, c)))
            else:
                skipped.append(name)
    if integral:
        calls += [("curvature[int64]", cu.knee, (PI,)), ("dfdt[int64]", df.knee, (PI,)), ("menger[int64]", me.knee, (PI,))]
        if pinned:
            calls.append(("kneedle(t=0)[int64]", kn.knee, (PI, 0)))
    return calls, skipped


def _xs_item(cv):
    P = _xs_build(cv)
    P0 = _scale_build(cv)
    n = len(P)
    out = {"answers": [], "bad": [], "skipped": [], "samples": [],
           "member": bool(_scale_member(cv, P0) and np.array_equal(P[:, 0] - float(cv["xoff"]), P0[:, 0])
                          and np.array_equal(P[:, 1], P0[:, 1]) and np.all(np.diff(P[:, 0]) >= 1))}
    if not out["member"]:
        return out
    calls, out["skipped"] = _xs_calls(cv, P)
    for name, fn, args in calls:
        o, v, _ = monitor.call(fn, args, budget=monitor.quad(n, 8) + 50000, wall=60)
        if o != "returned":
            out["bad"].append(("terminates" if o in ("budget", "watchdog") else "returns", {"detector": name, "outcome": o, "error": v}))
            continue
        if isinstance(v, tuple):
            v = v[0]
        try:
            got = -1 if v is None else int(v)
        except Exception:
            out["bad"].append(("returns", {"detector": name, "outcome": "returned a non-index", "error": repr(v)[:80]}))
            continue
        out["answers"].append([name, got if 0 <= got < n else -1 if got < 0 else n])
    want = {0, cv["a"] - 1, cv["a"], cv["a"] + 1, n - 1, n // 3, (2 * n) // 3}
    for _, got in out["answers"]:
        want |= {k for k in (got - 1, got, got + 1) if 0 <= k < n}
    out["samples"] = [[k, int(P[k, 0]), int(round(P[k, 1] * 8))] for k in sorted(want)]
    return out


def _xs_curve(rng, xoff, k):
    n = rng.randint(20, 80)
    m = n - 1
    short = rng.choice([3, 3, 4, 4, 5]) if k % 6 else rng.randint(6, m // 2)       # mostly an arm of minimal length
    side = "right" if k % 2 == 0 else "left"
    a = m - short if side == "right" else short
    pool = rng.choice([XS_PAIRS, XS_PAIRS, NEAR, SHARP, VEE, FLAT, None])
    pair = rng.choice(pool) if pool else tuple(rng.sample(range(-64, 65), 2))
    longp = list(rng.choice([[1], [2], [1], [2], [1, 2], [4], [2, 1, 1], [1, 3], [1, 2, 3, 4], [4, 4, 4, 1]]))
    shortp = list(rng.choice([[1], [1], [1], [2], [2], [1, 2], [3], [4, 1, 1]]))
    pats = (longp, shortp) if side == "right" else (shortp, longp)
    return {"a": a, "b": m - a, "s1": pair[0], "s2": pair[1], "off8": rng.choice([0, 8 * 4096, 8 * 4096, 4, 8 * 17, 1, 8 * 1024]),
            "pat1": pats[0], "pat2": pats[1], "xoff": xoff}


def _xs_case(cv, res):
    c = {k: cv[k] for k in ("a", "b", "s1", "s2", "off8", "pat1", "pat2", "xoff")}
    c.update(id=cv["id"], mono=_scale_mono(cv), samples=res["samples"],
             answers=[{"d": d, "got": g, "mono_only": d.startswith("kneedle")} for d, g in res["answers"]])
    return c


def _xs_selftests():
    cv = {"id": "st", "a": 5, "b": 3, "s1": 4, "s2": -2, "off8": 32768, "pat1": [2, 1], "pat2": [1], "xoff": 2 ** 30}
    P = _xs_build(cv)
    smp = [[k, int(P[k, 0]), int(round(P[k, 1] * 8))] for k in range(len(P))]
    ok = _xs_case(cv, {"samples": smp, "answers": [["lmethod.knee(pointfit,none)", 5], ["curvature", 5]]})
    wrong = dict(ok, answers=[{"d": "lmethod.knee(pointfit,none)", "got": 4, "mono_only": False}])
    stay = dict(ok, samples=[[k, x - 2 ** 30, y] for k, x, y in smp])
    odd = dict(ok, xoff=300000, samples=[[k, x - 2 ** 30 + 300000, y] for k, x, y in smp])
    moved = dict(ok, samples=[s if s[0] != 7 else [7, s[1] + 1, s[2]] for s in smp])
    return [(ok, "ok"), (wrong, "corner"), (stay, "sample-mismatch"), (odd, "not-in-family"), (moved, "sample-mismatch"),
            (dict(ok, b=2), "not-in-family"), (dict(ok, mono=True), "mono-flag")]


def _xshift(ctx, seen):
    rng = ctx.rng
    per = 40 if ctx.quick else 400
    cvs = []
    for xoff in XS_OFFSETS:
        for k in range(per):
            cvs.append(_xs_curve(rng, xoff, k))
    for k, cv in enumerate(cvs):
        cv["id"] = "X%d" % k
    res = par.pmap(_xs_item, cvs)
    outside = [cv["id"] for cv, r in zip(cvs, res) if not r["member"]]
    if outside:
        raise RuntimeError("harness built an x-translated curve outside the elbow family: %s" % outside[:3])
    rej = ctx.trace("Trace_ElbowScaleShift", [_xs_case(cv, r) for cv, r in zip(cvs, res) if r["answers"]],
                    selftest=_xs_selftests(), chunk=400)
    byid = {cv["id"]: cv for cv in cvs}
    calls, skipped = {}, {}
    for cv, r in zip(cvs, res):
        ctx.count(("X", {k: v for k, v in cv.items() if k != "id"}), True)
        for d, _ in r["answers"]:
            calls[d.split("(")[0]] = calls.get(d.split("(")[0], 0) + 1
        for d in r["skipped"]:
            skipped[d.split("(")[0]] = skipped.get(d.split("(")[0], 0) + 1
        for clause, detail in r["bad"]:
            key = (clause, detail.get("detector"))
            seen[key] = seen.get(key, 0) + 1
            if seen[key] <= 2:
                ctx.violation(clause, {"xshift": dict(cv)}, detail, match="%s:%s" % key)
    for cid, verdicts in sorted(rej.items(), key=lambda kv: int(kv[0][1:])):
        cv = byid[cid]
        for v in verdicts:
            if v[0] != "corner":
                raise RuntimeError("Trace_ElbowScaleShift did not admit a harness-built case %s: %s" % (cid, v))
            d, got = v[1], v[2]
            clause = "corner(%s)" % d.split("(")[0].split(".")[0]
            key = (clause, d)
            seen[key] = seen.get(key, 0) + 1
            if seen[key] <= 2:
                ctx.violation(clause, {"xshift": dict(cv)},
                              {"detector": d, "got": None if got < 0 else got, "corner": cv["a"], "points": cv["a"] + cv["b"] + 1,
                               "x_offset": cv["xoff"]}, match="%s:%s" % key)
    far = [(cv, r) for cv, r in zip(cvs, res) if cv["xoff"] == XS_OFFSETS[-1] and min(cv["a"], cv["b"]) == 3][0]
    ctx.sample({"binding": "T (x-translated)", "elbow": far[0], "answers": far[1]["answers"]})
    ctx.extra["x_translated"] = {"offsets": XS_OFFSETS, "curves": len(cvs), "points": [20, 80],
                                 "minimal_arm_3_or_4": sum(1 for cv in cvs if min(cv["a"], cv["b"]) <= 4),
                                 "replays_by_detector": calls, "near_tie_not_judged": skipped}
    ctx.note("x-translated elbows: an L-method option is judged only when, in exact arithmetic, every other split of every "
             "(sub-)curve it scans costs more than 4x the cost that rounding noise alone (8 sqrt(n) eps (8 x_max + y_max) per arm for "
             "the end-point fit, 64 sqrt(n) eps (..) for polyfit) can give the corner split; not judged here: %s.  float32 is left "
             "out (2^24 + 1 is not representable)" % (skipped or "none"))


def run(ctx):
    ctx.rule = ("G: arms 3..4 (thorough 3..6) x spacing patterns over {1,2,3,4} x slope pairs covering every orientation class "
                "(thorough: all ordered pairs of 14 slopes) x offsets {0, 1/2, 4096}, each replayed into 4 detectors x all "
                "options (+ Kneedle t=0 on monotone members); T: random long elbows (arms <= 40, plus a few very long unbalanced ones up to 520) admitted by TLC as family "
                "members.  every case is non-trivial (two distinct slopes); distinct = distinct curve.  "
                "S (scale): elbows of 257 .. 110 000 points (sizes just above 2^8 .. 2^16, 10^4, 10^5; corners at a fifth / half / "
                "four fifths, 3..9 segments from either end and on block seams; faint steep, sharp, V and flat-arm slope pairs; tiled "
                "spacing patterns; float64 and int64) through curvature, DFDT, Menger, Kneedle t=0 (monotone) and, on sizes its "
                "quadratic cost allows, every L-method option, admitted and judged by TLC (Trace_ElbowScale) from the compact "
                "description, sparse samples of the replayed array and the answers.  "
                "X (x-translated): elbows of 20 .. 80 points with an arm of 3, 4 or 5 segments on either side (spacings 1..4), translated "
                "in x by 2^20, 2^24, 2^27 and 2^30 (exact), float64 and int64, through every detector and every L-method fit x "
                "refinement / fit x cost whose decision is beyond rounding noise, admitted and judged by TLC (Trace_ElbowScaleShift)")
    ctx.assumptions += ["heights are multiples of 1/8 and offsets dyadic, so every curve is exactly representable in binary64",
                        "L-method refinement is run with its default limit (10); the limit is not one of the property's options",
                        "uts (gradient, isodata, ema, peak detection) is trusted",
                        "scale family: the spacings of a production-size elbow are a tiled pattern per arm (period 1..97 over {1,2,3,4}), not "
                        "independent draws, so that TLC can evaluate the whole curve in closed form from a compact description; TLC "
                        "compares that closed form with sparse samples of the replayed array, the harness checks the whole array"]
    beh = ctx.gen("Elbow", "Gen_Elbow_quick" if ctx.quick else "Gen_Elbow_thorough", timeout=1800)
    ctx.exhaustive = True
    res = par.pmap(_detect, [(b["pts"], b["corner"], b["mono"]) for b in beh])
    seen = {}
    for b, bad in zip(beh, res):
        ctx.count(("G", b["pts"]), True)
        for clause, detail in bad:
            seen[(clause, detail.get("detector"))] = seen.get((clause, detail.get("detector")), 0) + 1
            if seen[(clause, detail.get("detector"))] <= 2:
                ctx.violation(clause, {"pts": b["pts"], "corner": b["corner"], "mono": b["mono"]}, detail,
                              match="%s:%s" % (clause, detail.get("detector")))
    ctx.traces += len(beh)
    ctx.sample({"binding": "G", "elbow": beh[len(beh) // 3]})
    # ---- T: long elbows, admitted by TLC
    longs = _long_elbows(ctx.rng, 150 if ctx.quick else 2000)
    static_ok = {"id": "ok", "pts": [[0, 0], [1, 8], [2, 16], [3, 24], [5, 26], [6, 27], [7, 28]], "corner": 3, "mono": True}
    notelbow = dict(static_ok, pts=[[0, 0], [1, 8], [2, 16], [3, 25], [5, 26], [6, 27], [7, 28]])
    wrongcorner = dict(static_ok, corner=4)
    rej = ctx.trace("Trace_Elbow", [{k: e[k] for k in ("id", "pts", "corner")} for e in longs],
                    selftest=[(static_ok, "ok"), (notelbow, "not-an-elbow"), (wrongcorner, "not-an-elbow")], chunk=200)
    if rej:
        raise RuntimeError("harness generated a curve outside the elbow family: %s" % list(rej.items())[:2])
    res = par.pmap(_detect, [(e["pts"], e["corner"], e["mono"]) for e in longs])
    for e, bad in zip(longs, res):
        ctx.count(("T", e["pts"]), True)
        for clause, detail in bad:
            seen[(clause, detail.get("detector"))] = seen.get((clause, detail.get("detector")), 0) + 1
            if seen[(clause, detail.get("detector"))] <= 2:
                ctx.violation(clause, {"pts": e["pts"], "corner": e["corner"], "mono": e["mono"]}, detail,
                              match="%s:%s" % (clause, detail.get("detector")))
    # ---- S: production-size elbows, admitted and judged by TLC from their compact description
    _scale(ctx, seen)
    # ---- X: small exact elbows far from the origin on the x axis (exact powers of two), arms of minimal length
    _xshift(ctx, seen)
    ctx.extra["mismatches_by_detector"] = {"%s/%s" % k: v for k, v in seen.items()}
    # ---- growth beyond C03: Kneedle without smoothing on ALL small integer curves (notes only)
    growth.safe(ctx, growth.kneedle)


def replay(ctx, obj):
    c = obj["case"]
    if "xshift" in c:
        cv, r = c["xshift"], _xs_item(c["xshift"])
        if not r["member"]:
            raise RuntimeError("replay file does not describe a member of the elbow family")
        for clause, detail in r["bad"]:
            ctx.violation(clause, c, detail)
        for d, got in r["answers"]:
            if got != cv["a"]:
                ctx.violation("corner(%s)" % d.split("(")[0].split(".")[0], c,
                              {"detector": d, "got": None if got < 0 else got, "corner": cv["a"], "points": cv["a"] + cv["b"] + 1,
                               "x_offset": cv["xoff"]})
        return
    if "scale" in c:
        cv, r = c["scale"], _scale_item((c["scale"], c["group"]))
        if not r["member"]:
            raise RuntimeError("replay file does not describe a member of the elbow family")
        for clause, detail in r["bad"]:
            ctx.violation(clause, c, detail)
        for d, got in r["answers"]:
            if got != cv["a"]:
                ctx.violation("corner(%s)" % d.split("(")[0].split(".")[0], c,
                              {"detector": d, "got": None if got < 0 else got, "corner": cv["a"], "points": cv["a"] + cv["b"] + 1})
        return
    for clause, detail in _detect((c["pts"], c["corner"], c["mono"])):
        ctx.violation(clause, c, detail)
