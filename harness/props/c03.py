"""C03 - every single-knee detector finds the corner of an exact two-slope elbow.
M: Elbow.tla - the mechanism lemmas (only the corner triple turns; the two end-point lines have zero residual only
   when split at the corner) checked with exact integer arithmetic on every generated member of the family.
G: every generated elbow replayed into curvature.knee, dfdt.knee, menger.knee, lmethod.knee (Fit x Refinement),
   lmethod.get_knee (Fit x Cost) and kneedle.knee(t=0) on monotone members; expected answer = the corner index.
T: harness-generated long elbows (arms up to 40, random spacings, all slope pairs) are first validated as members of
   the family by TLC (Trace_Elbow) and then replayed the same way."""
import numpy as np

from harness import growth, monitor, numeric, par


def _detect(item):
    """item: (pts [[x,y8],...], corner, mono) -> list of (clause, detail)"""
    import kneeliverse.curvature as cu
    import kneeliverse.dfdt as df
    import kneeliverse.menger as me
    import kneeliverse.lmethod as lm
    import kneeliverse.kneedle as kn
    pts, corner, mono = item
    P = np.array([[p[0], p[1] / 8.0] for p in pts], float)
    n = len(P)
    calls = [("curvature", cu.knee, (P,)), ("dfdt", df.knee, (P,)), ("menger", me.knee, (P,))]
    for f in lm.Fit:
        for r in lm.Refinement:
            calls.append(("lmethod.knee(%s,%s)" % (f, r), lm.knee, (P, f, r)))
        for c in lm.Cost:
            calls.append(("lmethod.get_knee(%s,%s)" % (f, c), lm.get_knee, (P[:, 0], P[:, 1], f, c)))
    if mono:
        calls.append(("kneedle(t=0)", kn.knee, (P, 0)))
    if all(p[1] % 8 == 0 for p in pts):          # integral heights: the same elbow stored as an int64 array
        PI = P.astype(np.int64)
        calls += [("curvature[int64]", cu.knee, (PI,)), ("dfdt[int64]", df.knee, (PI,)), ("menger[int64]", me.knee, (PI,)),
                  ("lmethod.knee(pointfit,adjusted)[int64]", lm.knee, (PI,))]
        if mono:
            calls.append(("kneedle(t=0)[int64]", kn.knee, (PI, 0)))
    bad = []
    for name, fn, args in calls:
        out, v, _ = monitor.call(fn, args, budget=5000 * n + 50000, wall=30)
        if out != "returned":
            bad.append(("terminates" if out in ("budget", "watchdog") else "returns", {"detector": name, "outcome": out, "error": v}))
            continue
        if isinstance(v, tuple):
            v = v[0]
        if v is None or int(v) != corner:
            bad.append(("corner(%s)" % name.split("(")[0].split(".")[0], {"detector": name, "got": None if v is None else int(v), "corner": corner}))
    return bad


def _long_elbows(rng, count):
    out = []
    for k in range(count):
        a, b = rng.randint(3, 40), rng.randint(3, 40)
        if k < max(6, count // 25):          # a few very long, unbalanced elbows (arm lengths are unbounded in the property)
            a, b = rng.choice([(rng.randint(3, 45), rng.randint(300, 520)), (rng.randint(300, 520), rng.randint(3, 45)),
                               (rng.randint(200, 300), rng.randint(200, 300))])
        dxs = [rng.randint(1, 4) for _ in range(a + b)]
        if k % 5 == 1:       # a short arm whose first step from the corner is the widest (midpoints in x and in index differ)
            if rng.random() < 0.7:
                a, b = rng.randint(9, 30), rng.randint(3, 5)
                dxs = [rng.randint(1, 2) for _ in range(a)] + [rng.choice([3, 4])] + [1] * (b - 1)
            else:
                a, b = rng.randint(3, 5), rng.randint(9, 30)
                dxs = [1] * (a - 1) + [rng.choice([3, 4])] + [rng.randint(1, 2) for _ in range(b)]
        s1, s2 = rng.sample(range(-64, 65), 2)
        if k % 7 == 3:
            s1, s2 = rng.choice([(0, s2 or 5), (s1 or -7, 0)])      # one flat arm
        off8 = rng.choice([0, 4, 8 * 4096, 2, 1, 8 * 17])
        x, y = 0, off8
        pts = [[x, y]]
        for i, d in enumerate(dxs):
            x += d
            y += (s1 if i < a else s2) * d
            pts.append([x, y])
        ys = [p[1] for p in pts]
        mono = all(ys[i] <= ys[i + 1] for i in range(len(ys) - 1)) or all(ys[i] >= ys[i + 1] for i in range(len(ys) - 1))   # weakly monotone (a flat arm counts)
        out.append({"id": "L%d" % k, "pts": pts, "corner": a, "mono": mono})
    return out


def run(ctx):
    ctx.rule = ("G: arms 3..4 (thorough 3..6) x spacing patterns over {1,2,3,4} x slope pairs covering every orientation class "
                "(thorough: all ordered pairs of 14 slopes) x offsets {0, 1/2, 4096}, each replayed into 4 detectors x all "
                "options (+ Kneedle t=0 on monotone members); T: random long elbows (arms <= 40, plus a few very long unbalanced ones up to 520) admitted by TLC as family "
                "members.  every case is non-trivial (two distinct slopes); distinct = distinct curve")
    ctx.assumptions += ["heights are multiples of 1/8 and offsets dyadic, so every curve is exactly representable in binary64",
                        "L-method refinement is run with its default limit (10); the limit is not one of the property's options",
                        "uts (gradient, isodata, ema, peak detection) is trusted"]
    beh = ctx.gen("Elbow", "Gen_Elbow_quick" if ctx.quick else "Gen_Elbow_thorough", timeout=1800)
    ctx.exhaustive = True
    res = par.pmap(_detect, [(b["pts"], b["corner"], b["mono"]) for b in beh])
    seen = {}
    for b, bad in zip(beh, res):
        ctx.count(("G", b["pts"]), True)
        for clause, detail in bad:
            seen[(clause, detail.get("detector"))] = seen.get((clause, detail.get("detector")), 0) + 1
            if seen[(clause, detail.get("detector"))] <= 2:
                ctx.violation(clause, {"pts": b["pts"], "corner": b["corner"], "mono": b["mono"]}, detail,
                              match="%s:%s" % (clause, detail.get("detector")))
    ctx.traces += len(beh)
    ctx.sample({"binding": "G", "elbow": beh[len(beh) // 3]})
    # ---- T: long elbows, admitted by TLC
    longs = _long_elbows(ctx.rng, 150 if ctx.quick else 2000)
    static_ok = {"id": "ok", "pts": [[0, 0], [1, 8], [2, 16], [3, 24], [5, 26], [6, 27], [7, 28]], "corner": 3, "mono": True}
    notelbow = dict(static_ok, pts=[[0, 0], [1, 8], [2, 16], [3, 25], [5, 26], [6, 27], [7, 28]])
    wrongcorner = dict(static_ok, corner=4)
    rej = ctx.trace("Trace_Elbow", [{k: e[k] for k in ("id", "pts", "corner")} for e in longs],
                    selftest=[(static_ok, "ok"), (notelbow, "not-an-elbow"), (wrongcorner, "not-an-elbow")], chunk=200)
    if rej:
        raise RuntimeError("harness generated a curve outside the elbow family: %s" % list(rej.items())[:2])
    res = par.pmap(_detect, [(e["pts"], e["corner"], e["mono"]) for e in longs])
    for e, bad in zip(longs, res):
        ctx.count(("T", e["pts"]), True)
        for clause, detail in bad:
            seen[(clause, detail.get("detector"))] = seen.get((clause, detail.get("detector")), 0) + 1
            if seen[(clause, detail.get("detector"))] <= 2:
                ctx.violation(clause, {"pts": e["pts"], "corner": e["corner"], "mono": e["mono"]}, detail,
                              match="%s:%s" % (clause, detail.get("detector")))
    ctx.extra["mismatches_by_detector"] = {"%s/%s" % k: v for k, v in seen.items()}
    # ---- growth beyond C03: Kneedle without smoothing on ALL small integer curves (notes only)
    growth.safe(ctx, growth.kneedle)


def replay(ctx, obj):
    c = obj["case"]
    for clause, detail in _detect((c["pts"], c["corner"], c["mono"])):
        ctx.violation(clause, c, detail)
