"""C05 - fixed-size simplification is an exact-size, nested greedy refinement.
M: MC_Fixed (ExactSize, StackIsSplittable, ResultOk for mode "fixed": rdp_fixed(k) is the length-k prefix
   of the chain, the popped segment has maximal priority among all splittable retained segments).
T: the history rdp_fixed(points, k), k = 0..n+1, consumed event by event by Trace_Chain."""
import numpy as np

from harness import curves, numeric, oracles, par, simpl, static_cases

NFULL = 16     # chains are complete (k up to n+1) up to this n
KCUT = 14      # longer curves: chain cut at this k


def _record(item):
    cid, P, dist, order = item[:4]
    dtype = item[4] if len(item) > 4 else None
    P = np.asarray(P, float)
    n = len(P)
    ks = list(range(0, n + 2)) if n <= NFULL else list(range(0, KCUT + 1))
    events = []
    U = None
    for k in ks:
        ev = simpl.call(P, {"f": "rdp_fixed", "length": k, "distance": dist, "order": order, "dtype": dtype})
        e = {"k": k, "outcome": ev["outcome"], "S": ev.get("reduced", []) if ev["outcome"] == "returned" else []}
        events.append(e)
        if ev["outcome"] == "returned":
            S = e["S"]
            if len(S) >= 2 and all(S[j] < S[j + 1] for j in range(len(S) - 1)) and S[0] == 0 and S[-1] == n - 1:
                if U is None or len(S) > len(U):
                    U = S
    if U is None:
        U = [0, n - 1]
    m = len(U)
    far = [[[] for _ in range(m)] for _ in range(m)]
    rank = [[-1] * m for _ in range(m)]
    pairs = [(p, q) for p in range(m) for q in range(p + 1, m) if U[q] - U[p] >= 2]
    scores = [oracles.order_score(P, U[p], U[q], order, dist) for p, q in pairs]
    rk = oracles.score_ranks(scores, P) if scores else []
    for (p, q), r in zip(pairs, rk):
        rank[p][q] = r
        far[p][q] = oracles.far_set(P, U[p], U[q], dist)
    case = {"id": cid, "n": n, "U": U, "events": events, "far": far, "rank": rank}
    return case, {"points": P.tolist(), "distance": dist, "order": order, "dtype": dtype}


def inputs(ctx):
    rng = ctx.rng
    cs = curves.adversarial()
    grid = []
    for n in (3, 4, 5, 6):
        grid += curves.grid_curves(n, 3 if n < 6 else 2, spacings=(1, 2, 3))
    cs += rng.sample(grid, 150) if ctx.quick else rng.sample(grid, 1500)
    cs += [curves.random_curve(rng, 3, 16) for _ in range(150 if ctx.quick else 1500)]
    cs += [curves.random_curve(rng, 17, 60) for _ in range(40 if ctx.quick else 400)]
    cs += [curves.random_curve(rng, n, n, kind=rng.choice([0, 2, 4])) for n in ([600, 1500] if ctx.quick else [600, 1500, 4000])]   # long curves (chain cut at k=14)
    cs += curves.trace_windows(rng, 6 if ctx.quick else 50, 20, 80, names=("web0_reduced.csv", "usr0.csv", "web2.csv"))
    for _ in range(40 if ctx.quick else 400):          # spiky, steep, non-monotone curves: points project outside their chord,
        n = rng.randint(6, 30)                         # so the two distance options really differ
        x = np.cumsum([rng.choice([1, 1, 2, 7]) for _ in range(n)]).astype(float)
        y = np.array([rng.choice([0.5, 1.0, 40.0, 90.0, 200.0]) * rng.random() + 1.0 for _ in range(n)])
        cs.append(curves.mk(x, y))
    items = []
    for ci, P in enumerate(cs):
        combos = [(d, o) for d in simpl.DISTANCES for o in simpl.ORDERS]
        if ci >= 19:
            combos = rng.sample(combos, 2 if ctx.quick else 4)
        for d, o in combos:
            items.append(("c%d-%s-%s" % (ci, d, o), P.tolist(), d, o, "int64" if simpl.integral(P) and rng.random() < 0.35 else None))
    return items


def _selftests():
    c = static_cases.get("C05")
    out = [(c, "ok")]
    ev = [dict(e) for e in c["events"]]
    ev[3] = dict(ev[3], S=ev[4]["S"])                                   # one index too many for k = 3
    out.append((dict(c, events=ev), "exact-size"))
    ev = [dict(e) for e in c["events"]]
    S = list(ev[5]["S"])
    prevS = ev[4]["S"]
    drop = next(x for x in prevS[1:-1])
    cand = next(x for x in range(1, c["n"] - 1) if x not in S)
    ev[5] = dict(ev[5], S=sorted([x for x in S if x != drop] + [cand]))  # same size, not a superset
    out.append((dict(c, events=ev), "nested"))
    out.append((dict(c, far=[[[] for _ in r] for r in c["far"]]), "farthest-point"))
    mx = max(max(r) for r in c["rank"])
    out.append((dict(c, rank=[[(mx - v if v >= 0 else -1) for v in r] for r in c["rank"]]), "max-priority-segment"))
    return out


def run(ctx):
    from harness import growth
    growth.safe(ctx, growth.fixed_steps)
    ctx.rule = ("one case = the whole history rdp_fixed(points,k), k=0..n+1 (n<=16; cut at k=14 above) for one "
                "distance x ordering; tables over all index pairs of the largest member.  non-trivial: the chain has "
                "at least 2 greedy steps and at least two splittable segments compete at some step (n >= 5)")
    ctx.assumptions += numeric.ASSUMPTIONS + [
        "ordering scores (triangle = 0.5*|chord|*max distance, area = sum of distances, segment = endpoint-line RSS) "
        "are computed from the library's distance/residual primitives and noise-merged into dense ranks",
    ]
    ctx.mc("Fixed", "MC_Fixed" if ctx.quick else "MC_Fixed_6",
           need_actions=("ChainStep", "Start", "FixedStep", "FixedEnd"), timeout=1800)
    # the fixed phase refines the abstraction whose exact-size result is proved for EVERY n and k (TLAPS, FixedSizeProof_proofs.tla)
    ctx.mc("FixedSizeRefines", "MC_FixedSizeRefines", need_actions=("FixedStep", "FixedEnd"))
    ctx.mc("FixedSizeRefines", "MC_FixedSizeRefines_neg", expect="ExitAgrees")
    if not ctx.quick:
        from harness import proofs
        proofs.recheck(ctx, ["FixedSizeProof_proofs"])
    items = inputs(ctx)
    rec = par.pmap(_record, items)
    cases = [c for c, _ in rec]
    meta = {c["id"]: m for c, m in rec}
    rej = ctx.trace("Trace_Chain", cases, selftest=_selftests(), chunk=150, procs=8)
    nev = 0
    for c in cases:
        nev += len(c["events"])
        ctx.count((meta[c["id"]]["points"], meta[c["id"]]["distance"], meta[c["id"]]["order"]), c["n"] >= 5)
    ctx.extra["chain_events_validated"] = nev
    for cid, vs in rej.items():
        m = meta[cid]
        ctx.violation(vs[0][0], {"kind": "T", "points": m["points"], "distance": m["distance"], "order": m["order"], "dtype": m["dtype"]},
                      {"verdict": vs[0], "rejected_events": len(vs)})
    sm = next(c for c in cases if c["n"] == 6)
    ctx.sample({"binding": "T", "call": meta[sm["id"]], "events": sm["events"], "U": sm["U"]})


def replay(ctx, obj):
    c = obj["case"]
    case, m = _record(("replay", c["points"], c["distance"], c["order"], c.get("dtype")))
    rej = ctx.trace("Trace_Chain", [case])
    for cid, vs in rej.items():
        ctx.violation(vs[0][0], c, {"verdict": vs[0]})
