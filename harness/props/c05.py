"""C05 - fixed-size simplification is an exact-size, nested greedy refinement.
M: MC_Fixed (ExactSize, StackIsSplittable, ResultOk for mode "fixed": rdp_fixed(k) is the length-k prefix
   of the chain, the popped segment has maximal priority among all splittable retained segments).
T: the history rdp_fixed(points, k), k = 0..n+1, consumed event by event by Trace_Chain.
T (scale): windows of the same history on curves of 10^3 .. 10^5 points (long retained segments at small k, members of
   thousands of indices at large k) with SPARSE tables, consumed by Trace_ChainScale (Trace_Chain's clauses and operators)."""
import bisect
import math

import numpy as np

from harness import curves, numeric, oracles, par, scale, simpl, static_cases

NFULL = 16     # chains are complete (k up to n+1) up to this n
KCUT = 14      # longer curves: chain cut at this k


def _record(item):
    cid, P, dist, order = item[:4]
    dtype = item[4] if len(item) > 4 else None
    P = np.asarray(P, float)
    n = len(P)
    ks = list(range(0, n + 2)) if n <= NFULL else list(range(0, KCUT + 1))
    events = []
    U = None
    for k in ks:
        ev = simpl.call(P, {"f": "rdp_fixed", "length": k, "distance": dist, "order": order, "dtype": dtype})
        e = {"k": k, "outcome": ev["outcome"], "S": ev.get("reduced", []) if ev["outcome"] == "returned" else []}
        events.append(e)
        if ev["outcome"] == "returned":
            S = e["S"]
            if len(S) >= 2 and all(S[j] < S[j + 1] for j in range(len(S) - 1)) and S[0] == 0 and S[-1] == n - 1:
                if U is None or len(S) > len(U):
                    U = S
    if U is None:
        U = [0, n - 1]
    m = len(U)
    far = [[[] for _ in range(m)] for _ in range(m)]
    rank = [[-1] * m for _ in range(m)]
    pairs = [(p, q) for p in range(m) for q in range(p + 1, m) if U[q] - U[p] >= 2]
    scores = [oracles.order_score(P, U[p], U[q], order, dist) for p, q in pairs]
    rk = oracles.score_ranks(scores, P) if scores else []
    for (p, q), r in zip(pairs, rk):
        rank[p][q] = r
        far[p][q] = oracles.far_set(P, U[p], U[q], dist)
    case = {"id": cid, "n": n, "U": U, "events": events, "far": far, "rank": rank}
    return case, {"points": P.tolist(), "distance": dist, "order": order, "dtype": dtype}


def inputs(ctx):
    rng = ctx.rng
    cs = curves.adversarial()
    grid = []
    for n in (3, 4, 5, 6):
        grid += curves.grid_curves(n, 3 if n < 6 else 2, spacings=(1, 2, 3))
    cs += rng.sample(grid, 150) if ctx.quick else rng.sample(grid, 1500)
    cs += [curves.random_curve(rng, 3, 16) for _ in range(150 if ctx.quick else 1500)]
    cs += [curves.random_curve(rng, 17, 60) for _ in range(40 if ctx.quick else 400)]
    cs += [curves.random_curve(rng, n, n, kind=rng.choice([0, 2, 4])) for n in ([600, 1500] if ctx.quick else [600, 1500, 4000])]   # long curves (chain cut at k=14)
    cs += curves.trace_windows(rng, 6 if ctx.quick else 50, 20, 80, names=("web0_reduced.csv", "usr0.csv", "web2.csv"))
    for _ in range(40 if ctx.quick else 400):          # spiky, steep, non-monotone curves: points project outside their chord,
        n = rng.randint(6, 30)                         # so the two distance options really differ
        x = np.cumsum([rng.choice([1, 1, 2, 7]) for _ in range(n)]).astype(float)
        y = np.array([rng.choice([0.5, 1.0, 40.0, 90.0, 200.0]) * rng.random() + 1.0 for _ in range(n)])
        cs.append(curves.mk(x, y))
    items = []
    for ci, P in enumerate(cs):
        combos = [(d, o) for d in simpl.DISTANCES for o in simpl.ORDERS]
        if ci >= 19:
            combos = rng.sample(combos, 2 if ctx.quick else 4)
        for d, o in combos:
            items.append(("c%d-%s-%s" % (ci, d, o), P.tolist(), d, o, "int64" if simpl.integral(P) and rng.random() < 0.35 else None))
    return items


# ---------------------------------------------------------------------------------------------------------------- scale family
# Production-size curves.  A case is a WINDOW of the history: consecutive lengths ks = k0, k0+1, ... for one curve x distance x
# ordering (the first member of a window is judged for exact size only, every later one as a greedy step from its predecessor).
#   "long"  windows: k = 0..K on curves of 10^3 .. 1.1*10^5 points - the retained segments that compete have thousands of
#           points (the ordering score and the farthest point are sums / maxima over 4096+ points);
#   "seam"  windows: k = 2..4 on elbows of the same sizes whose corner sits on / next to 256, 1024, 4096, ..., 65536, 10^5;
#   "deep"  windows: 3-4 consecutive lengths that straddle 256 / 1024 / 4096 or reach n+1 on curves of 10^3 .. 1.8*10^4 points -
#           the members and the work stack have thousands of entries.
# Curves are rebuilt from a small JSON description (so a replay file stays small); tables are sparse: one score / far set per
# retained segment that some member of the window actually has, far sets cut down to the indices some member has.
LONG_SEG = 4096        # a retained segment counts as long from this many points on
SCUT = 64              # a returned member of the WRONG size is recorded by its first SCUT indices only
SCALE_SHAPES = ("stairs", "staircase", "zigzag", "spikes", "convex_pl", "valley", "elbow", "mrc", "jitter_line", "walk")


def _stairs(n, per, frac, h, amp, flip):
    """The hinted shape: a fine staircase (per samples per step, height h) over the first frac*n points followed by a smooth
    convex tail (exponential decay of amplitude amp plus a gentle slope); non-increasing.  flip: mirrored (convex part first)."""
    la = max(per, int(n * frac) // per * per)
    la = min(la, n - 8)
    i = np.arange(la + 1)
    ya = -(i // per) * float(h)
    nt = n - la - 1
    t = np.arange(1, nt + 1, dtype=float)
    yb = ya[-1] - (h / (16.0 * per)) * t - amp * (1.0 - np.exp(-t / max(1.0, nt / 8.0)))
    y = np.concatenate([ya, yb])
    if flip:
        y = -y[::-1]
    return scale._xy(y - y.min())


def _walk(n, seed, heavy):
    """Non-increasing random walk (a measured miss-ratio curve): mostly small decrements, now and then a cliff; every retained
    segment has its own score, so thousands of segments really compete."""
    r = np.random.RandomState(seed)
    d = r.exponential(1.0, n)
    cl = r.random_sample(n) < (8.0 / n if not heavy else 64.0 / n)
    d = d + cl * r.exponential(n / 16.0, n)
    d[r.random_sample(n) < 0.3] = 0.0          # plateaus
    y = -np.cumsum(d)
    return scale._xy(np.round((y - y.min()) * 16.0) / 16.0)


def _build(cv):
    """The curve of a description {"shape": ..., "n": ..., parameters}: a deterministic function of the description."""
    import random
    n, sh = cv["n"], cv["shape"]
    if sh == "stairs":
        return _stairs(n, cv["per"], cv["frac"], cv["h"], cv["amp"], cv["flip"])
    if sh == "walk":
        return _walk(n, cv["seed"], cv["heavy"])
    if sh == "staircase":
        return scale.staircase(n, cv["steps"], rng=random.Random(cv["seed"]), grow=cv["grow"], jitter=cv["jitter"])
    if sh == "zigzag":
        return scale.zigzag(n, growth=cv["growth"])
    if sh == "spikes":
        return scale.spikes(n, period=cv["period"])
    if sh == "convex_pl":
        return scale.convex_pl(n, cv["corners"])
    if sh == "valley":
        return scale.valley(n, rng=random.Random(cv["seed"]))
    if sh == "elbow":
        return scale.elbow(n, cv["corner"], cv["s1"], cv["s2"])
    if sh == "mrc":
        return scale.mrc(n, random.Random(cv["seed"]), knees=cv["knees"])
    if sh == "jitter_line":
        return scale.jitter_line(n, cv["a"], cv["b"], cv["amp"], slope=-900.0 / n, top=1000.0)
    raise ValueError(sh)


def _describe(rng, sh, n):
    """A random description of shape sh with n points."""
    cv = {"shape": sh, "n": n}
    if sh == "stairs":
        cv.update(per=rng.choice([2, 3, 4, 4, 5, 8]), frac=rng.choice([0.5, 0.625, 0.72, 0.8]), h=rng.choice([0.25, 1.0, 2.0]),
                  amp=rng.choice([2.0, 8.0, 40.0]), flip=rng.random() < 0.3)
    elif sh == "walk":
        cv.update(seed=rng.randrange(10 ** 6), heavy=rng.random() < 0.5)
    elif sh == "staircase":
        cv.update(steps=rng.choice([3, 5, 9, 17]), seed=rng.randrange(10 ** 6), grow=rng.random() < 0.4, jitter=rng.choice([0, 1, 2, 3]))
    elif sh == "zigzag":
        cv.update(growth=rng.choice([1.0 / 64, 1.0 / 1024, 1.0 / 8]))
    elif sh == "spikes":
        cv.update(period=rng.choice([2, 3, 4, 7, 16]))
    elif sh == "convex_pl":
        cv.update(corners=rng.choice([2, 5, 11]))
    elif sh == "valley":
        cv.update(seed=rng.randrange(10 ** 6))
    elif sh == "elbow":      # the farthest point sits on / next to a typical block seam when the curve is long enough
        seams = [t + o for t in scale.THRESHOLDS for o in (-1, 0, 1) if 2 <= t + o <= n - 3]
        cv.update(corner=rng.choice(seams) if seams else n // 3, s1=rng.choice([-2.0, -0.5, 4.0]), s2=rng.choice([-0.125, 0.25, -0.0078125]))
    elif sh == "mrc":
        cv.update(seed=rng.randrange(10 ** 6), knees=rng.choice([3, 6, 12]))
    elif sh == "jitter_line":
        a = rng.randrange(0, n // 2)
        cv.update(a=a, b=rng.randrange(a + n // 4, n), amp=rng.choice([0.5, 2.0, 8.0]))
    return cv


def _is_reduction(S, n):
    return len(S) >= 2 and S[0] == 0 and S[-1] == n - 1 and all(S[j] < S[j + 1] for j in range(len(S) - 1))


def _far_among(P, a, b, dist, cand):
    """oracles.far_set(P, a, b, dist) cut down to the candidate indices cand (all strictly inside a..b): the same distances and
    the same tolerance, without a Python loop over a segment of 10^5 points."""
    pt = P[a:b + 1]
    d = np.asarray(oracles.dist_fn(dist)(pt, pt[0], pt[-1]), float)
    inner = d[1:-1]
    if not np.all(np.isfinite(inner)):
        return list(cand)
    sc = max(float(np.max(np.abs(pt - pt[0]))), 1e-300)
    mx = float(inner.max())
    tol = max(numeric.REL * mx, 1e-12 * sc, float(np.finfo(float).eps))
    return [c for c in cand if d[c - a] >= mx - tol]


def _record_scale(item):
    """One window: the events and the SPARSE tables (rows only for the retained segments some member of the window has)."""
    cid, cv, dist, order, dtype, ks = item
    P = _build(cv)
    n = len(P)
    if dtype == "int64" and not simpl.integral(P):
        dtype = None
    events, members = [], []
    for k in ks:
        # hang protection: simpl.call's default budgets grow like n^2 (monitor.quad(n, 16) back-edges in total, 8n+64 steps of
        # the refinement loop, 20 s * n^2 / 250000 of CPU time); an unchanged call at k = 4100 uses about 8200 back-edges
        ev = simpl.call(P, {"f": "rdp_fixed", "length": k, "distance": dist, "order": order, "dtype": dtype})
        S = ev.get("reduced", []) if ev["outcome"] == "returned" else []
        size, want = len(S), min(max(k, 2), n)
        if len(S) != want and len(S) > SCUT:
            S = S[:SCUT]          # a member of the wrong size fails exact-size whatever it holds: do not ship 10^5 indices
        events.append({"k": k, "outcome": ev["outcome"], "S": S, "size": size})
        if ev["outcome"] == "returned" and _is_reduction(S, n):
            members.append(S)
    U = sorted(set(x for S in members for x in S)) or [0, n - 1]
    segs = sorted(set((a, b) for S in members for a, b in zip(S, S[1:]) if b - a >= 2))
    scores = [oracles.order_score(P, a, b, order, dist) for a, b in segs]
    # the check's noise policy (oracles.score_ranks), the relative part widened for sums over n terms
    yscale = max(float(np.max(np.abs(P[:, 1]))), float(np.max(np.abs(P[:, 0] - P[0, 0]))), 1.0)
    mx = max([abs(s) for s in scores if not math.isnan(s)] + [0.0])
    rk = numeric.ranks(scores, rel=max(numeric.REL, 8 * n * float(np.finfo(float).eps)),
                       ab=max(1e-12 * yscale * yscale, 1e-13 * mx)) if scores else []
    far = [_far_among(P, a, b, dist, U[bisect.bisect_right(U, a):bisect.bisect_left(U, b)]) for a, b in segs]
    # what the window exercised (evidence only)
    steps = longsteps = 0
    for S, T in zip(members, members[1:]):
        if len(T) == len(S) + 1:
            steps += 1
            sp = [b - a + 1 for a, b in zip(S, S[1:]) if b - a >= 2]
            if len(sp) >= 2 and max(sp) >= LONG_SEG:
                longsteps += 1
    case = {"id": cid, "n": n, "events": events, "segs": [[a, b, r, f] for (a, b), r, f in zip(segs, rk, far)]}
    meta = {"kind": "T-scale", "curve": cv, "distance": dist, "order": order, "dtype": dtype, "ks": list(ks)}
    stats = {"n": n, "steps": steps, "longsteps": longsteps, "kmax": max(len(S) for S in members) if members else 0,
             "segs": len(segs)}
    return case, meta, stats


def _scale_items(ctx):
    rng = ctx.rng
    combos = [(d, o) for d in simpl.DISTANCES for o in simpl.ORDERS]
    items = []

    def add(tag, cv, d, o, ks):
        dtype = None
        if cv["shape"] in ("staircase", "convex_pl", "valley") and rng.random() < 0.3:
            dtype = "int64"            # integral ordinates by construction (the worker drops the request if they are not)
        items.append(("%s%d-%s-n%d-%s-%s" % (tag, len(items), cv["shape"], cv["n"], d, o), cv, d, o, dtype, ks))

    # long windows: k = 0..K, every distance x ordering, the hinted shape on every size plus a sample of the others
    K = 12 if ctx.quick else 24
    sizes = scale.sizes(ctx, lo=1000, hi=110000, k_quick=5, k_thorough=14)
    for n in sizes:
        shapes = ["stairs"] + rng.sample([s for s in SCALE_SHAPES if s != "stairs"], 2 if ctx.quick else 5)
        if not ctx.quick:
            shapes.append("stairs")
        for sh in shapes:
            cv = _describe(rng, sh, n)
            for d, o in combos:
                add("L", cv, d, o, list(range(0, K + 1)))
    # seam windows: k = 2..4 on two-slope elbows whose corner (the farthest point of the first split, decisively) sits on / next
    # to every typical block seam below n - whatever the blocks are counted from
    for n in sizes:
        for c in [t + o for t in scale.THRESHOLDS for o in (-1, 0, 1) if 2 <= t + o <= n - 3]:
            cv = dict(_describe(rng, "elbow", n), corner=c)
            d, o = rng.choice(combos)
            add("S", cv, d, o, [2, 3, 4])
    # deep windows: lengths that straddle 256 / 1024 / 4096 (D) and the end of the chain, k = n-2 .. n+1 (E: every segment has
    # been split, so nothing that was ever pushed on the work stack may have been lost).  (base n, D threshold, E?, heavy?)
    plan = [(1025, 256, True, False), (2 * 1024 + 3, 1024, False, False), (4097, None, True, True), (2 * 4096 + 3, 4096, False, True)]
    if not ctx.quick:
        plan += [(4097, 1024, True, False), (4097, 4096, False, True), (10001, 4096, True, True), (16385, 4096, False, True),
                 (16385, None, True, None)]
    for base, thr, to_end, heavy in plan:
        n = base + rng.randrange(0, max(2, base // 8))
        shapes = ["walk"] + rng.sample(["mrc", "staircase", "stairs", "jitter_line", "spikes", "walk"], 1 if ctx.quick else 2)
        if heavy is None:              # a call at k = 16385 takes a good 15 s: one window
            shapes = shapes[:1]
        for sh in shapes:
            cv = _describe(rng, sh, n)
            for d, o in rng.sample(combos, (1 if heavy is None else 2 if heavy else 4) if not ctx.quick else (1 if heavy else 2)):
                if thr is not None:
                    add("D", cv, d, o, list(range(thr - 1, thr + (2 if heavy else 3))))
                if to_end:
                    add("E", cv, d, o, list(range(n - 1 if heavy in (True, None) else n - 2, n + 2)))
    # the recording pool takes the items in order: the expensive windows (a call costs about k^2) first
    items.sort(key=lambda it: -(len(it[5]) * (it[5][-1] ** 2 + 40 * it[1]["n"])))
    return items


def _to_sparse(c):
    """the static (dense) good case in the sparse layout of Trace_ChainScale"""
    U = c["U"]
    segs = []
    for p in range(len(U)):
        for q in range(p + 1, len(U)):
            if c["rank"][p][q] >= 0:
                segs.append([U[p], U[q], c["rank"][p][q], c["far"][p][q]])
    return {"id": c["id"], "n": c["n"], "events": [dict(e, size=len(e["S"])) for e in c["events"]],
            "segs": sorted(segs, key=lambda s: (s[0], s[1]))}


def _validate_scale(ctx, cases, selftest):
    """Trace_ChainScale over the windows, in a few balanced batches (a JVM start costs more than judging a batch)."""
    st = [(_to_sparse(c), cl) for c, cl in _selftests()] if selftest else None
    nb = 1 if len(cases) < 16 else 4 if ctx.quick else 8
    bins = [[] for _ in range(nb)]
    for j, c in enumerate(sorted(cases, key=lambda c: -sum(len(e["S"]) for e in c["events"]))):
        bins[j % nb].append(c)
    ordered = [c for bn in bins for c in bn]
    return ctx.trace("Trace_ChainScale", ordered, selftest=st, chunk=max(1, -(-(len(ordered) + len(st or [])) // nb)), procs=nb)


def run_scale(ctx):
    import time
    t0 = time.time()
    items = _scale_items(ctx)
    rec = par.pmap(_record_scale, items, chunksize=1)
    cases = [c for c, _, _ in rec]
    meta = {c["id"]: m for c, m, _ in rec}
    rej = _validate_scale(ctx, cases, selftest=True)
    agg = {"windows": len(cases), "events": 0, "greedy_steps": 0, "steps_with_competing_segment_of_4096+_points": 0,
           "largest_n": 0, "largest_member": 0, "table_rows": 0}
    for c, m, st in rec:
        agg["events"] += len(c["events"])
        agg["greedy_steps"] += st["steps"]
        agg["steps_with_competing_segment_of_4096+_points"] += st["longsteps"]
        agg["largest_n"] = max(agg["largest_n"], st["n"])
        agg["largest_member"] = max(agg["largest_member"], st["kmax"])
        agg["table_rows"] += st["segs"]
        ctx.count((m["curve"], m["distance"], m["order"], m["ks"][0]), st["longsteps"] > 0 or st["kmax"] > 256)
    agg["sizes"] = sorted(set(st["n"] for _, _, st in rec))
    agg["shapes"] = sorted(set(m["curve"]["shape"] for _, m, _ in rec))
    agg["wall_s"] = round(time.time() - t0, 1)
    ctx.extra["scale"] = agg
    if rej == {} and (agg["steps_with_competing_segment_of_4096+_points"] == 0 or agg["largest_member"] <= 1024):
        ctx.note("VACUOUS-SCALE-FAMILY (what the family was built to reach did not occur in this run; a note, not a failure: see DESIGN 11.8): %s" % (agg,)); ctx.extra.setdefault("scale_vacuous", True)
    for cid, vs in rej.items():
        ctx.violation(vs[0][0], meta[cid], {"verdict": vs[0], "rejected_events": len(vs), "family": "scale"})
    lg = next((r for r in rec if r[2]["longsteps"] > 0 and r[1]["curve"]["shape"] == "stairs"), rec[0])
    ctx.sample({"binding": "T", "family": "scale", "call": lg[1], "n": lg[2]["n"],
                "events": [{"k": e["k"], "S": e["S"]} for e in lg[0]["events"]][-3:]})


def _selftests():
    c = static_cases.get("C05")
    out = [(c, "ok")]
    ev = [dict(e) for e in c["events"]]
    ev[3] = dict(ev[3], S=ev[4]["S"])                                   # one index too many for k = 3
    out.append((dict(c, events=ev), "exact-size"))
    ev = [dict(e) for e in c["events"]]
    S = list(ev[5]["S"])
    prevS = ev[4]["S"]
    drop = next(x for x in prevS[1:-1])
    cand = next(x for x in range(1, c["n"] - 1) if x not in S)
    ev[5] = dict(ev[5], S=sorted([x for x in S if x != drop] + [cand]))  # same size, not a superset
    out.append((dict(c, events=ev), "nested"))
    out.append((dict(c, far=[[[] for _ in r] for r in c["far"]]), "farthest-point"))
    mx = max(max(r) for r in c["rank"])
    out.append((dict(c, rank=[[(mx - v if v >= 0 else -1) for v in r] for r in c["rank"]]), "max-priority-segment"))
    return out


def run(ctx):
    from harness import growth
    growth.safe(ctx, growth.fixed_steps)
    ctx.rule = ("one case = the whole history rdp_fixed(points,k), k=0..n+1 (n<=16; cut at k=14 above) for one "
                "distance x ordering; tables over all index pairs of the largest member.  non-trivial: the chain has "
                "at least 2 greedy steps and at least two splittable segments compete at some step (n >= 5).  "
                "scale family: windows of the same history on built curves of 10^3 .. 1.1*10^5 points (k = 0..12/24: the "
                "competing retained segments have 4096+ points; 3-4 consecutive k around 256 / 1024 / 4096 and up to n+1: "
                "members of thousands of indices), all distances x orderings, sparse tables (one row per retained segment "
                "a member has); non-trivial there: a step where a 4096+ point segment competes, or a member above 256 indices")
    ctx.assumptions += numeric.ASSUMPTIONS + [
        "ordering scores (triangle = 0.5*|chord|*max distance, area = sum of distances, segment = endpoint-line RSS) "
        "are computed from the library's distance/residual primitives and noise-merged into dense ranks",
        "scale family: tables hold one row per retained segment that some member of the window has (scores ranked among "
        "those rows with the same noise policy, relative part max(1e-9, 8*n*eps)); far sets are cut down to the indices "
        "some member has; curves are rebuilt from their description; a returned member of the WRONG size is recorded by "
        "its length and its first 64 indices",
    ]
    ctx.mc("Fixed", "MC_Fixed" if ctx.quick else "MC_Fixed_6",
           need_actions=("ChainStep", "Start", "FixedStep", "FixedEnd"), timeout=1800)
    # the fixed phase refines the abstraction whose exact-size result is proved for EVERY n and k (TLAPS, FixedSizeProof_proofs.tla)
    ctx.mc("FixedSizeRefines", "MC_FixedSizeRefines", need_actions=("FixedStep", "FixedEnd"))
    ctx.mc("FixedSizeRefines", "MC_FixedSizeRefines_neg", expect="ExitAgrees")
    if not ctx.quick:
        from harness import proofs
        proofs.recheck(ctx, ["FixedSizeProof_proofs"])
    items = inputs(ctx)
    rec = par.pmap(_record, items)
    cases = [c for c, _ in rec]
    meta = {c["id"]: m for c, m in rec}
    rej = ctx.trace("Trace_Chain", cases, selftest=_selftests(), chunk=150, procs=8)
    nev = 0
    for c in cases:
        nev += len(c["events"])
        ctx.count((meta[c["id"]]["points"], meta[c["id"]]["distance"], meta[c["id"]]["order"]), c["n"] >= 5)
    ctx.extra["chain_events_validated"] = nev
    for cid, vs in rej.items():
        m = meta[cid]
        ctx.violation(vs[0][0], {"kind": "T", "points": m["points"], "distance": m["distance"], "order": m["order"], "dtype": m["dtype"]},
                      {"verdict": vs[0], "rejected_events": len(vs)})
    sm = next(c for c in cases if c["n"] == 6)
    ctx.sample({"binding": "T", "call": meta[sm["id"]], "events": sm["events"], "U": sm["U"]})
    run_scale(ctx)


def replay(ctx, obj):
    c = obj["case"]
    if c.get("kind") == "T-scale":
        case, m, _ = _record_scale(("replay", c["curve"], c["distance"], c["order"], c.get("dtype"), c["ks"]))
        for cid, vs in _validate_scale(ctx, [case], selftest=False).items():
            ctx.violation(vs[0][0], c, {"verdict": vs[0], "family": "scale"})
        return
    case, m = _record(("replay", c["points"], c["distance"], c["order"], c.get("dtype")))
    rej = ctx.trace("Trace_Chain", [case])
    for cid, vs in rej.items():
        ctx.violation(vs[0][0], c, {"verdict": vs[0]})
