"""C17 - geometric and ranking primitives equal their geometric definitions.
M: algebraic laws of Geometry.tla on the complete 0..G grid (invariants of Gen_Geometry).
G: every case with its exact rational expected value, replayed into the real primitives.
T: kr.rank on vectors with ties judged by RankOk (Trace_Rank).
S: the scale family - the same TLC-generated cases blown up to production size (10^2 .. 10^5 points / values, sizes
   straddling 256 .. 10^5 with ragged remainders): every returned value against the same exact Terms; rank on long
   vectors with ties judged by TLC from a linear certificate (Trace_RankScale)."""
import math

import numpy as np

from harness import monitor, numeric, par, scale

SCALES = [(1.0, 0.0), (1.0, 1073741824.0), (1.0, -2.0), (2.0 ** -40, 0.0)]     # plain grid; far from the origin (translation invariance); tiny units (scale covariance, exact)


def _close(got, exp):
    return numeric.close(got, exp, rel=1e-9, ab=1e-12 * max(1.0, abs(exp)))


def _q(q):
    return q[0] / q[1]


def _check(b, scale=1.0, off=0.0):
    import kneeliverse.linear_fit as lf
    import kneeliverse.knee_ranking as kr
    import kneeliverse.menger as menger
    import kneeliverse.postprocessing as pp
    bad = []
    T = lambda p: np.array([p[0] * scale + off, p[1] * scale + off], float)

    def guard(clause, fn):
        try:
            fn()
        except AssertionError as ex:
            bad.append((clause, ex.args[0] if ex.args else None))
        except Exception as ex:
            bad.append((clause, {"raised": repr(ex)[:300]}))

    k = b["kind"]
    if k == "seg":
        a, bb = T(b["a"]), T(b["b"])
        P = np.array([T(p) for p in b["pts"]])
        exp = [math.sqrt(_q(q)) * scale for q in b["d2seg"]]

        def f1():
            got = lf.shortest_distance_points(P, a, bb)
            assert len(got) == len(exp), {"len": len(got)}
            for i in range(len(exp)):
                assert _close(got[i], exp[i]), {"p": b["pts"][i], "got": float(got[i]), "expected": exp[i]}
        guard("shortest-distance" if b["a"] != b["b"] else "degenerate-chord", f1)
        if b["a"] != b["b"] and b["a"][1] == 0 and b["b"][1] == 0 and off == 0.0:
            def f1t():
                # mixed magnitudes: the chord's far end lifted by 1e-200 (its square underflows harmlessly); distances are
                # unchanged to 200 digits.  Exposes floating-point traps / fallbacks taken on harmless underflow.
                bt = bb + np.array([0.0, 1e-200])
                got = lf.shortest_distance_points(P, a, bt)
                assert len(got) == len(exp), {"len": len(got)}
                for i in range(len(exp)):
                    assert _close(got[i], exp[i]), {"p": b["pts"][i], "got": float(got[i]), "expected": exp[i], "chord_end_lifted_by": 1e-200}
            guard("shortest-distance", f1t)
        if b["a"] != b["b"]:
            expp = [math.sqrt(_q(q)) * scale for q in b["perp2"]]

            def f2():
                got = lf.perpendicular_distance_points(P, a, bb)
                for i in range(len(expp)):
                    assert _close(got[i], expp[i]), {"p": b["pts"][i], "got": float(got[i]), "expected": expp[i]}
            guard("perpendicular-distance", f2)

            def f3():
                arr = np.vstack([a[None, :], P, bb[None, :]])
                got = lf.perpendicular_distance(arr)
                e = [0.0] + expp + [0.0]
                assert len(got) == len(e), {"len": len(got)}
                for i in range(len(e)):
                    assert _close(got[i], e[i]), {"i": i, "got": float(got[i]), "expected": e[i]}
            guard("perpendicular-distance", f3)

            def f4():
                pad = np.array([[-5.0 * scale + off, 7.0 * scale + off]])
                arr = np.vstack([pad, pad + 1, a[None, :], P, bb[None, :], pad])
                got = lf.perpendicular_distance_index(arr, 2, 2 + len(P) + 1)
                e = [0.0] + expp + [0.0]
                assert len(got) == len(e), {"len": len(got), "expected_len": len(e)}
                for i in range(len(e)):
                    assert _close(got[i], e[i]), {"i": i, "got": float(got[i]), "expected": e[i]}
            guard("perpendicular-subrange", f4)

            def f4s():
                # the smallest ranges: the two end points alone, and one interior point between them
                pad = np.array([[-5.0 * scale + off, 7.0 * scale + off]])
                got = lf.perpendicular_distance_index(np.vstack([pad, a[None, :], bb[None, :], pad]), 1, 2)
                assert len(got) == 2 and _close(got[0], 0.0) and _close(got[1], 0.0), {"range": "2 points", "got": [float(v) for v in got]}
                for jj in range(min(len(P), 4)):
                    arr = np.vstack([pad, a[None, :], P[jj][None, :], bb[None, :], pad])
                    for name, got in (("perpendicular_distance_index", lf.perpendicular_distance_index(arr, 1, 3)),
                                      ("perpendicular_distance", lf.perpendicular_distance(arr[1:4]))):
                        e = [0.0, expp[jj], 0.0]
                        assert len(got) == 3, {"fn": name, "len": len(got)}
                        for i in range(3):
                            assert _close(got[i], e[i]), {"fn": name, "range": "3 points", "p": b["pts"][jj], "i": i, "got": float(got[i]), "expected": e[i]}
            guard("perpendicular-subrange", f4s)

            if scale == 1.0 and off in (0.0, -2.0):
                def f4i():
                    # the same integral points stored as an int64 array: distances are real numbers whatever the input dtype
                    arr = np.vstack([a[None, :], P, bb[None, :]]).astype(np.int64)
                    e = [0.0] + expp + [0.0]
                    for name, got in (("perpendicular_distance[int64]", lf.perpendicular_distance(arr)),
                                      ("perpendicular_distance_index[int64]", lf.perpendicular_distance_index(arr, 0, len(arr) - 1)),
                                      ("perpendicular_distance_points[int64]", np.concatenate(([0.0], np.asarray(lf.perpendicular_distance_points(arr[1:-1], arr[0], arr[-1]), float), [0.0])))):
                        assert len(got) == len(e), {"fn": name, "len": len(got)}
                        for i in range(len(e)):
                            assert _close(float(got[i]), e[i]), {"fn": name, "i": i, "got": float(got[i]), "expected": e[i]}
                guard("perpendicular-distance", f4i)

        def f5():
            got = kr.distances(a, P)
            e = [math.sqrt(v) * scale for v in b["d2a"]]
            for i in range(len(e)):
                assert _close(got[i], e[i]), {"i": i, "got": float(got[i]), "expected": e[i]}
        guard("euclidean-distances", f5)
    elif k == "rect":
        e = _q(b["iou"])

        def f():
            amin, amax = kr.rect(T(b["a"]), T(b["b"]))
            bmin, bmax = kr.rect(T(b["p"]), T(b["q"]))
            got = kr.rect_overlap(amin, amax, bmin, bmax)
            assert _close(got, e), {"got": float(got), "expected": e}
            got2 = kr.rect_overlap(bmin, bmax, amin, amax)
            assert _close(got2, got), {"asymmetric": [float(got), float(got2)]}
        guard("iou", f)
    elif k == "tri":
        if b["distinct"]:
            e = math.sqrt(_q(b["menger2"])) / scale

            def f():
                got = menger.menger_curvature(T(b["f"]), T(b["g"]), T(b["h"]))
                assert _close(got, e), {"got": float(got), "expected": e}
                got2 = menger.menger_curvature(T(b["g"]), T(b["f"]), T(b["h"]))
                assert _close(got2, e), {"asymmetric": [float(got), float(got2)]}
            guard("menger", f)

        def g():
            got = pp.triangle_area(np.array([T(b["f"]), T(b["g"]), T(b["h"])]))
            e2 = abs(b["cross"]) / 2.0 * scale * scale
            # the shoelace form multiplies coordinates: absolute rounding error grows with |offset| * extent
            assert numeric.close(abs(got), e2, rel=1e-9, ab=1e-9 * scale * scale + 4e-16 * (abs(off) + 4 * scale) * 4 * scale * 8), \
                {"got": float(got), "expected": e2}
        guard("triangle-area", g)
    elif k == "rank":
        v = np.array(b["v"], float) * scale + off
        if b["distinct"]:
            def f():
                got = [int(x) for x in kr.rank(v).tolist()]
                assert got == list(b["rank"]), {"got": got, "expected": b["rank"]}
                goti = [int(x) for x in kr.rank(np.array(b["v"], dtype=np.int64)).tolist()]
                assert goti == list(b["rank"]), {"got_int": goti, "expected": b["rank"]}
            guard("rank-permutation", f)

        def g():
            got = kr.distance_to_similarity(v)
            e = [max(v) - x for x in v]
            for i in range(len(e)):
                assert _close(got[i], e[i]), {"got": float(got[i]), "expected": e[i]}
        guard("distance-to-similarity", g)
    return bad


def _replay_line(b):
    out = []
    for s, o in SCALES:
        for clause, detail in _check(b, s, o):
            out.append((clause, dict(detail or {}, scale=s, offset=o) if isinstance(detail, dict) else detail))
    return out


def _nontrivial(b):
    k = b["kind"]
    if k == "seg":
        return b["a"] != b["b"]
    if k == "rect":
        return b["iou"][0] > 0
    if k == "tri":
        return b["distinct"] and b["cross"] != 0
    return len(b["v"]) > 1


# ---------------------------------------------------------------------------------------------------------------------
# Scale family ("S").  A TLC-generated case (a chord with the complete grid as query set and its exact squared distances;
# a value vector with its exact rank) is blown up to n = 10^2 .. 10^5 entries by an index sequence over the pattern (tiled /
# random / long runs), so that the expected value of EVERY returned entry is still the pattern's exact Term.  One job = one
# (size, pattern, shape, scale, offset); jobs are deterministic functions of their (JSON) description, which is the replay case.
SHAPES = ("tile", "random", "runs")
TAIL = 8            # the last TAIL entries are forced onto pattern points at non-zero distance (a lost / stale tail cannot hide at 0)


def _close_vec(got, exp):
    """numeric.close with the tolerances of _close, element-wise (expected values are always finite)."""
    tol = np.maximum(1e-12 * np.maximum(1.0, np.abs(exp)), 1e-9 * np.maximum(np.abs(got), np.abs(exp)))
    with np.errstate(invalid="ignore"):
        return np.isfinite(got) & (np.abs(got - exp) <= tol)


class _Outcome(Exception):
    pass


def _lib(fn, args, n):
    """every library call of the family: back-edge budget quadratic in n (the primitives are loop-free or linear) + CPU watchdog"""
    out, val, _ = monitor.call(fn, args, budget=monitor.quad(n, 8), wall=120)
    if out != "returned":
        raise _Outcome({"outcome": out, "value": val if isinstance(val, str) else None})
    return val


def _vec_assert(name, got, exp, pts=None, idx=None, first_row=0):
    """got must be a 1-D vector of len(exp) values, each within tolerance of exp; the detail is sparse."""
    exp = np.asarray(exp, float)
    try:
        g = np.asarray(got, dtype=float)
    except Exception:
        raise AssertionError({"fn": name, "result": repr(got)[:120]})
    assert g.shape == exp.shape, {"fn": name, "shape": list(g.shape), "expected_shape": list(exp.shape)}
    ok = _close_vec(g, exp)
    if not ok.all():
        badi = np.flatnonzero(~ok)
        i = int(badi[0])
        d = {"fn": name, "values": int(len(exp)), "wrong": int(len(badi)), "first_wrong_index": i, "got": float(g[i]), "expected": float(exp[i]),
             "last_wrong_index": int(badi[-1]), "wrong_only_in_last_64": bool(badi[0] >= len(exp) - 64)}
        if pts is not None and idx is not None and first_row <= i < first_row + len(idx):
            d["p"] = pts[int(idx[i - first_row])]
        raise AssertionError(d)


def _shape_index(shape, n, m, rng, nz):
    """an index sequence of length n over the m pattern entries"""
    if shape == "tile":
        perm = rng.permutation(m)
        idx = perm[(np.arange(n) + int(rng.integers(0, m))) % m]
    elif shape == "random":
        idx = rng.integers(0, m, n)
    else:                         # 9 .. 200 runs of one pattern entry each, cut at random positions
        k = int(min(n, rng.integers(8, 200)))
        cuts = np.sort(rng.choice(np.arange(1, n), size=min(k, n - 1), replace=False)) if n > 1 else np.array([], int)
        lens = np.diff(np.concatenate(([0], cuts, [n])))
        idx = np.repeat(rng.integers(0, m, len(lens)), lens)
    idx = np.asarray(idx, dtype=np.int64)
    if shape != "random" and len(nz) and n > 4 * TAIL:
        idx[-TAIL:] = np.asarray(nz)[(np.arange(TAIL) + int(rng.integers(0, len(nz)))) % len(nz)]
    return idx


def _scale_seg(job):
    import kneeliverse.linear_fit as lf
    import kneeliverse.knee_ranking as kr
    b, n, s, off = job["behaviour"], int(job["n"]), float(job["scale"]), float(job["offset"])
    rng = np.random.default_rng([int(job["sseed"]), n])
    bad, stats = [], {"calls": 0, "values": 0}
    keep = []                     # results stay alive: a freed result buffer must not be handed to the next call as "uninitialised" memory

    def guard(clause, fn):
        try:
            fn()
        except AssertionError as ex:
            bad.append((clause, ex.args[0] if ex.args else None))
        except _Outcome as ex:
            bad.append((clause, ex.args[0]))
        except Exception as ex:
            bad.append((clause, {"raised": repr(ex)[:300]}))

    def call(name, fn, args, exp, nn, **kw):
        got = _lib(fn, args, nn)
        keep.append(got)
        stats["calls"] += 1
        stats["values"] += len(exp)
        _vec_assert(name, got, exp, **kw)

    T = lambda p: np.array([p[0] * s + off, p[1] * s + off], float)
    deg = b["a"] == b["b"]
    m = len(b["pts"])
    eseg_p = np.array([math.sqrt(_q(q)) * s for q in b["d2seg"]])
    eperp_p = None if deg else np.array([math.sqrt(_q(q)) * s for q in b["perp2"]])
    ea_p = np.array([math.sqrt(v) * s for v in b["d2a"]])
    nz = [j for j in range(m) if (b["d2seg"][j][0] if deg else b["perp2"][j][0]) > 0]
    idx = _shape_index(job["shape"], n, m, rng, nz)
    pat = np.array(b["pts"], float) * s + off
    P = np.ascontiguousarray(pat[idx])
    a, bb = T(b["a"]), T(b["b"])
    eseg, ea = eseg_p[idx], ea_p[idx]
    kw = {"pts": b["pts"], "idx": idx}
    ints = s == 1.0 and off in (0.0, -2.0)
    wide = np.empty((2 * n, 4))
    wide[:] = np.nan
    wide[::2, ::2] = P
    Pv = wide[::2, ::2]           # the same points as a strided view of a wider array (DESIGN 3.4)

    guard("degenerate-chord" if deg else "shortest-distance", lambda: call("shortest_distance_points", lf.shortest_distance_points, (P, a, bb), eseg, n, **kw))
    guard("degenerate-chord" if deg else "shortest-distance", lambda: call("shortest_distance_points[strided view]", lf.shortest_distance_points, (Pv, a, bb), eseg, n, **kw))
    guard("euclidean-distances", lambda: call("distances", kr.distances, (a, P), ea, n, **kw))
    if ints:
        guard("degenerate-chord" if deg else "shortest-distance",
              lambda: call("shortest_distance_points[int64]", lf.shortest_distance_points, (P.astype(np.int64), a.astype(np.int64), bb.astype(np.int64)), eseg, n, **kw))
    if not deg:
        eperp = eperp_p[idx]
        guard("perpendicular-distance", lambda: call("perpendicular_distance_points", lf.perpendicular_distance_points, (P, a, bb), eperp, n, **kw))
        guard("perpendicular-distance", lambda: call("perpendicular_distance_points[strided view]", lf.perpendicular_distance_points, (Pv, a, bb), eperp, n, **kw))
        arr = np.vstack([a[None, :], P, bb[None, :]])
        e = np.concatenate(([0.0], eperp, [0.0]))
        guard("perpendicular-distance", lambda: call("perpendicular_distance", lf.perpendicular_distance, (arr,), e, n + 2, first_row=1, **kw))
        if ints:
            ai = arr.astype(np.int64)
            guard("perpendicular-distance", lambda: call("perpendicular_distance[int64]", lf.perpendicular_distance, (ai,), e, n + 2, first_row=1, **kw))
            guard("perpendicular-subrange", lambda: call("perpendicular_distance_index[int64]", lf.perpendicular_distance_index, (ai, 0, n + 1), e, n + 2, first_row=1, **kw))
        for (L, k, R) in job["subs"]:
            # points[left..right] inside a longer array: L unrelated points, a, the LAST k query points, b, R unrelated points
            L, k, R = int(L), min(int(k), n), int(R)
            junk = lambda c: rng.integers(-5, 9, (c, 2)).astype(float) * s + off
            sub = np.vstack([junk(L), a[None, :], P[n - k:], bb[None, :], junk(R)])
            es = np.concatenate(([0.0], eperp[n - k:], [0.0]))
            guard("perpendicular-subrange",
                  lambda: call("perpendicular_distance_index(points[%d], %d, %d)" % (len(sub), L, L + k + 1), lf.perpendicular_distance_index, (sub, L, L + k + 1), es, len(sub),
                               pts=b["pts"], idx=idx[n - k:], first_row=1))
    return bad, stats


# ---------------------------------------------------------------------------------------------------------------------
# Far-integer family ("S" / what = "iseg"): the same TLC patterns as INT64 curves TRANSLATED far from the origin (offsets 2^53 .. 2^62
# on x and / or y, built from Python ints, so not representable in binary64; integer steps 1 .. 1000 between grid lines).  The distances
# are translation invariant and the differences end-start / pt-start are exact in int64, so every returned value still equals the
# pattern's exact Term (times the step).  A conversion of the raw coordinates to float before the differences collapses the samples.
FAR_OFFSETS = (2 ** 53, 2 ** 53 + 1, 2 ** 55 + 12345, 1_700_000_000_000_000_000, 2 ** 60 + 1, 2 ** 61 + 2 ** 30 + 7, 9_000_000_000_000_000_000, 2 ** 62)
FAR_STEPS = (1, 3, 100, 1000)
FAR_NEAR = (0, -2, 7)             # the untranslated axis


def _far_seg(job):
    import kneeliverse.linear_fit as lf
    import kneeliverse.knee_ranking as kr
    b, n, k = job["behaviour"], int(job["n"]), int(job["step"])
    ox, oy = int(job["offx"]), int(job["offy"])          # Python ints (recorded as decimal strings)
    rng = np.random.default_rng([int(job["sseed"]), n, 53])
    bad, stats = [], {"calls": 0, "values": 0}
    keep = []

    def guard(clause, fn):
        try:
            fn()
        except AssertionError as ex:
            bad.append((clause, ex.args[0] if ex.args else None))
        except _Outcome as ex:
            bad.append((clause, ex.args[0]))
        except Exception as ex:
            bad.append((clause, {"raised": repr(ex)[:300]}))

    def call(name, fn, args, exp, nn, **kw):
        got = _lib(fn, args, nn)
        keep.append(got)
        stats["calls"] += 1
        stats["values"] += len(exp)
        _vec_assert(name, got, exp, **kw)

    I = lambda p: [ox + k * int(p[0]), oy + k * int(p[1])]
    o64 = np.array([ox, oy], dtype=np.int64)
    deg = b["a"] == b["b"]
    m = len(b["pts"])
    eseg_p = np.array([math.sqrt(_q(q)) * k for q in b["d2seg"]])
    eperp_p = None if deg else np.array([math.sqrt(_q(q)) * k for q in b["perp2"]])
    ea_p = np.array([math.sqrt(v) * k for v in b["d2a"]])
    nz = [j for j in range(m) if (b["d2seg"][j][0] if deg else b["perp2"][j][0]) > 0]
    idx = np.arange(m, dtype=np.int64) if job["shape"] == "pattern" else _shape_index(job["shape"], n, m, rng, nz)
    n = len(idx)
    pat = np.array([I(p) for p in b["pts"]], dtype=np.int64)
    P = np.ascontiguousarray(pat[idx])
    a, bb = np.array(I(b["a"]), dtype=np.int64), np.array(I(b["b"]), dtype=np.int64)
    assert P.dtype == np.int64 and [int(v) for v in a.tolist()] == I(b["a"]) and [int(v) for v in pat[-1].tolist()] == I(b["pts"][-1])
    eseg, ea = eseg_p[idx], ea_p[idx]
    kw = {"pts": b["pts"], "idx": idx}
    wide = np.zeros((2 * n, 4), dtype=np.int64)
    wide[::2, ::2] = P
    Pv = wide[::2, ::2]
    tag = "[int64 + (%d, %d)]" % (ox, oy)

    guard("degenerate-chord" if deg else "shortest-distance", lambda: call("shortest_distance_points" + tag, lf.shortest_distance_points, (P, a, bb), eseg, n, **kw))
    guard("degenerate-chord" if deg else "shortest-distance", lambda: call("shortest_distance_points[strided view]" + tag, lf.shortest_distance_points, (Pv, a, bb), eseg, n, **kw))
    guard("euclidean-distances", lambda: call("distances" + tag, kr.distances, (a, P), ea, n, **kw))
    if not deg:
        eperp = eperp_p[idx]
        guard("perpendicular-distance", lambda: call("perpendicular_distance_points" + tag, lf.perpendicular_distance_points, (P, a, bb), eperp, n, **kw))
        guard("perpendicular-distance", lambda: call("perpendicular_distance_points[strided view]" + tag, lf.perpendicular_distance_points, (Pv, a, bb), eperp, n, **kw))
        arr = np.vstack([a[None, :], P, bb[None, :]])
        e = np.concatenate(([0.0], eperp, [0.0]))
        guard("perpendicular-distance", lambda: call("perpendicular_distance" + tag, lf.perpendicular_distance, (arr,), e, n + 2, first_row=1, **kw))
        guard("perpendicular-subrange", lambda: call("perpendicular_distance_index(points[%d], 0, %d)%s" % (n + 2, n + 1, tag), lf.perpendicular_distance_index, (arr, 0, n + 1), e, n + 2,
                                                     first_row=1, **kw))
        for (L, c, R) in job["subs"]:
            L, c, R = int(L), min(int(c), n), int(R)
            junk = lambda cnt: o64 + k * rng.integers(-5, 9, (cnt, 2))
            sub = np.vstack([junk(L), a[None, :], P[n - c:], bb[None, :], junk(R)])
            assert sub.dtype == np.int64
            es = np.concatenate(([0.0], eperp[n - c:], [0.0]))
            guard("perpendicular-subrange",
                  lambda: call("perpendicular_distance_index(points[%d], %d, %d)%s" % (len(sub), L, L + c + 1, tag), lf.perpendicular_distance_index, (sub, L, L + c + 1), es, len(sub),
                               pts=b["pts"], idx=idx[n - c:], first_row=1))
    return bad, stats


def _far_jobs(ctx, nondeg, degen, sizes):
    """pattern-size jobs (the TLC case itself, translated) for many chords + production sizes; its own generator: the draws of the
    scale family stay what they were"""
    import random
    rng = random.Random(ctx.seed * 7919 + 1753)
    quick = ctx.quick
    jobs = []

    def offsets(i):
        mode = ("x", "y", "xy")[i % 3]
        o1 = rng.choice((-1, 1)) * (FAR_OFFSETS[i % len(FAR_OFFSETS)] + (rng.randrange(0, 1 << 20) if FAR_OFFSETS[i % len(FAR_OFFSETS)] < 2 ** 62 else -rng.randrange(0, 1 << 20)))
        o2 = rng.choice((-1, 1)) * (rng.choice(FAR_OFFSETS[:-1]) + rng.randrange(0, 1 << 20))
        return mode, {"x": (o1, rng.choice(FAR_NEAR)), "y": (rng.choice(FAR_NEAR), o1), "xy": (o1, o2)}[mode]

    def add(b, n, shape, i):
        mode, (ox, oy) = offsets(i)
        k = FAR_STEPS[(i // 3) % len(FAR_STEPS)] if i % 5 else rng.choice(FAR_STEPS)
        subs = []
        if b["a"] != b["b"]:
            big = [c for c in (1000, 33000) if c <= max(1000, n)]
            subs.append((rng.randrange(1, 8), n, rng.randrange(0, 4)))
            subs.append((rng.choice(big) + rng.randrange(0, 777), rng.randrange(1, min(n, 300) + 1), rng.randrange(0, max(1, n))))
            if n > 1000:
                subs.append((rng.randrange(1, 3000), rng.randrange(n // 2, n + 1), rng.randrange(0, 3000)))
        jobs.append({"kind": "S", "what": "iseg", "n": n, "behaviour": b, "shape": shape, "sseed": rng.randrange(1 << 30), "step": k, "axes": mode,
                     "offx": str(ox), "offy": str(oy), "scale": float(k), "offset": [str(ox), str(oy)], "subs": subs})

    i = rng.randrange(24)
    for b in rng.sample(nondeg, 21 if quick else 60) + rng.sample(degen, 3 if quick else 8):
        add(b, len(b["pts"]), "pattern", i)
        i += 1
    for si, n0 in enumerate(sizes):
        chords = rng.sample(nondeg, 1 if quick else 3) + ([rng.choice(degen)] if (not quick or si % 4 == 0) else [])
        for j, b in enumerate(chords):
            for _ in range(1 if quick else 2):
                add(b, n0 + 11 + j, SHAPES[i % 3], i)
                i += 1
    return jobs


RANK_DTYPES = ("float64", "int64", "float32", "int32")


def _scale_rank(job):
    """distinct values: the exact permutation.  Block t of the long vector is the pattern v shifted by t * (max(v) + 1), so the
    rank of entry j of block t is RankOf(v)[j] + t * len(v) (the Term of the pattern); then a seeded rearrangement of positions."""
    import kneeliverse.knee_ranking as kr
    b, n, s, off = job["behaviour"], int(job["n"]), float(job["scale"]), float(job["offset"])
    rng = np.random.default_rng([int(job["sseed"]), n, 17])
    bad, stats = [], {"calls": 0, "values": 0}
    m = len(b["v"])
    t = max(1, n // m)
    step = max(b["v"]) + 1
    big = (np.tile(np.array(b["v"], np.int64), t) + step * np.repeat(np.arange(t, dtype=np.int64), m))
    exp = (np.tile(np.array(b["rank"], np.int64), t) + m * np.repeat(np.arange(t, dtype=np.int64), m))
    if job["shape"] == "random":
        pos = rng.permutation(len(big))
    elif job["shape"] == "runs":          # descending blocks
        pos = np.arange(len(big))[::-1].copy()
    else:
        pos = np.arange(len(big))
    big, exp = big[pos], exp[pos]
    dt = job["dtype"]
    v = (big.astype(float) * s + off) if dt == "float64" else big.astype(dt)
    nn = len(big)

    def guard(clause, fn):
        try:
            fn()
        except AssertionError as ex:
            bad.append((clause, ex.args[0] if ex.args else None))
        except _Outcome as ex:
            bad.append((clause, ex.args[0]))
        except Exception as ex:
            bad.append((clause, {"raised": repr(ex)[:300]}))

    def f():
        got = np.asarray(_lib(kr.rank, (v,), nn))
        stats["calls"] += 1
        stats["values"] += nn
        assert got.shape == (nn,), {"fn": "rank", "dtype": dt, "shape": list(got.shape), "expected_shape": [nn]}
        assert got.dtype.kind in "iu", {"fn": "rank", "dtype": dt, "result_dtype": str(got.dtype)}
        ne = np.flatnonzero(got.astype(np.int64) != exp)
        assert len(ne) == 0, {"fn": "rank", "dtype": dt, "values": nn, "wrong": int(len(ne)), "first_wrong_index": int(ne[0]), "value": float(v[ne[0]]),
                              "got": int(got[ne[0]]), "expected": int(exp[ne[0]]), "last_wrong_index": int(ne[-1])}
    guard("rank-permutation", f)

    def g():
        vf = np.asarray(v, float)
        got = _lib(kr.distance_to_similarity, (vf,), nn)
        stats["calls"] += 1
        stats["values"] += nn
        _vec_assert("distance_to_similarity", got, float(vf.max()) - vf)
    guard("distance-to-similarity", g)
    return bad, stats


def _scale_job(job):
    bad, stats = _scale_seg(job) if job["what"] == "seg" else (_far_seg(job) if job["what"] == "iseg" else _scale_rank(job))
    ann = {"n": job["n"], "shape": job["shape"], "scale": job["scale"], "offset": job["offset"]}
    return [(clause, dict(detail, **ann) if isinstance(detail, dict) else detail) for clause, detail in bad], stats


TIE_DTYPES = ("float64", "float32", "float16", "int64", "int32", "int16", "uint16", "int8", "uint8", "bool")
TIE_HI = {"int8": 100, "uint8": 200, "bool": 1, "float16": 60}          # largest value the element type holds exactly / without wrapping


def _tie_case(cid, n, dtype, hi, vseed):
    """one long vector with (many) ties -> the recorded case for Trace_RankScale: values, returned ranks, ordering hint"""
    import kneeliverse.knee_ranking as kr
    rng = np.random.default_rng([int(vseed), int(n), 23])
    hi = int(min(hi, TIE_HI.get(dtype, hi)))
    arr = rng.integers(0, hi + 1, int(n)).astype(dtype)
    out, val, _ = monitor.call(kr.rank, (arr,), budget=monitor.quad(int(n), 8), wall=120)
    r = []
    if out == "returned":
        try:
            r = [int(x) if abs(int(x)) < 2 ** 31 else -1 for x in np.asarray(val).ravel().tolist()]
        except Exception:
            r = []
    return _cert({"id": cid, "v": [int(x) for x in arr.astype(float).tolist()], "r": r}), out


def _cert(c):
    """adds the ordering hint o (1-based stable argsort of r) that Trace_RankScale verifies"""
    c = dict(c)
    c["o"] = [int(x) + 1 for x in np.argsort(np.array(c["r"], dtype=np.int64), kind="stable").tolist()] if len(c["r"]) else []
    return c


def _run_scale(ctx, beh, small_ties, small_rejected):
    monitor.install()
    quick = ctx.quick
    segs = [b for b in beh if b["kind"] == "seg"]
    nondeg = [b for b in segs if b["a"] != b["b"]]
    degen = [b for b in segs if b["a"] == b["b"]]
    rks = [b for b in beh if b["kind"] == "rank" and b["distinct"] and len(b["v"]) >= 2]
    # sizes: seed-dependent ones just above the usual thresholds (256 .. 10^5, ragged) + three fixed ragged ones beyond 2^14
    rng = ctx.rng
    sizes = sorted(set(scale.sizes(ctx, lo=200, hi=110000, k_quick=8, k_thorough=18)) | {20000, 50001, 100003, 257 + rng.randrange(1, 64), 4097 + rng.randrange(1, 1000)})
    scales = list(SCALES)
    jobs = []
    for si, n0 in enumerate(sizes):
        chords = rng.sample(nondeg, 3 if quick else 7) + [rng.choice(degen)]
        for j, b in enumerate(chords):
            n = n0 + j                        # consecutive lengths: whatever the block count, most of them leave a remainder
            for so in ([scales[0], scales[1 + (si + j) % (len(scales) - 1)]] if quick else scales):
                subs = []
                if b["a"] != b["b"]:
                    big = [c for c in (1000, 33000, 66000) if c <= max(1000, n)]
                    subs.append((rng.randrange(1, 8), n, rng.randrange(0, 4)))                                    # the whole range, a few points in
                    subs.append((rng.choice(big) + rng.randrange(0, 777), rng.randrange(max(1, n // 2), n + 1), rng.randrange(0, 3000)))   # a long range deep inside
                    subs.append((rng.choice(big) + rng.randrange(0, 777), rng.randrange(1, min(n, 300) + 1), rng.randrange(0, max(1, n))))  # a short range deep inside
                jobs.append({"kind": "S", "what": "seg", "n": n, "behaviour": b, "shape": SHAPES[(si + j + len(jobs)) % 3], "sseed": rng.randrange(1 << 30),
                             "scale": so[0], "offset": so[1], "subs": subs})
        for j in range(1 if quick else 4):
            dt = RANK_DTYPES[(si + j) % len(RANK_DTYPES)]
            so = scales[(si + j) % len(scales)] if dt == "float64" else (1.0, 0.0)
            jobs.append({"kind": "S", "what": "rank", "n": n0 + j, "behaviour": rng.choice(rks), "shape": SHAPES[(si + j) % 3], "sseed": rng.randrange(1 << 30),
                         "scale": so[0], "offset": so[1], "dtype": dt})
    far = _far_jobs(ctx, nondeg, degen, sizes)          # int64 curves translated by 2^53 .. 2^62 (drawn from a generator of their own)
    jobs = jobs + far
    res = par.pmap(_scale_job, jobs, chunksize=1)
    seen = set()
    calls = values = 0
    for job, (bad, stats) in zip(jobs, res):
        calls += stats["calls"]
        values += stats["values"]
        ctx.count(("S", job), job["what"] == "rank" or job["behaviour"]["a"] != job["behaviour"]["b"])
        for clause, detail in bad:
            key = (clause, job["what"], job["n"] > 16384)
            if key in seen:
                ctx.extra["suppressed_duplicates"] = ctx.extra.get("suppressed_duplicates", 0) + 1
                continue
            seen.add(key)
            ctx.violation(clause, job, detail)
    ctx.traces += len(jobs)
    if not calls or values < max(sizes):
        from harness.main import Machinery
        raise Machinery("scale family: nothing was compared (%d calls, %d values)" % (calls, values))
    big = next(j for j in reversed(jobs) if j["what"] == "seg" and j["subs"])
    ctx.sample({"binding": "S", "job": {k: v for k, v in big.items() if k != "behaviour"}, "chord": [big["behaviour"]["a"], big["behaviour"]["b"]]}, limit=5)
    fbig = next(j for j in reversed(far) if j["subs"])
    ctx.sample({"binding": "S", "job": {k: v for k, v in fbig.items() if k != "behaviour"}, "chord": [fbig["behaviour"]["a"], fbig["behaviour"]["b"]]}, limit=6)
    fres = [r for j, r in zip(jobs, res) if j["what"] == "iseg"]
    if not far or sum(st["calls"] for _, st in fres) < 5 * len(far):
        from harness.main import Machinery
        raise Machinery("far-integer family: too few library calls were compared")
    ctx.extra["far_int64"] = {"jobs": len(far), "pattern_size_jobs": sum(1 for j in far if j["shape"] == "pattern"), "sizes": sorted({j["n"] for j in far}),
                              "library_calls": sum(st["calls"] for _, st in fres), "returned_values_compared": sum(st["values"] for _, st in fres),
                              "axes": sorted({j["axes"] for j in far}), "steps": sorted({j["step"] for j in far}),
                              "abs_offset_log2_range": [round(min(math.log2(max(abs(int(j["offx"])), abs(int(j["offy"])))) for j in far), 2),
                                                        round(max(math.log2(max(abs(int(j["offx"])), abs(int(j["offy"])))) for j in far), 2)],
                              "primitives": ["shortest_distance_points", "distances", "perpendicular_distance_points", "perpendicular_distance", "perpendicular_distance_index"]}
    # ---- rank on long vectors with ties: judged by TLC from a linear certificate
    tsz = ([n for n in sizes if n <= 6000] or [4097 + rng.randrange(0, 900)])[-1:] + [33000 + rng.randrange(0, 5000), 100003 + rng.randrange(0, 5)] if quick else \
        [sizes[0], sizes[len(sizes) // 4], 20000 + rng.randrange(0, 9), 33000 + rng.randrange(0, 5000), 66000 + rng.randrange(0, 3000), 50001, 100003 + rng.randrange(0, 5), sizes[-1]]
    ties, outcome = [], {}
    for k, n in enumerate(tsz):
        dt = "int16" if 32768 < n < 40000 else ("uint16" if 65536 < n < 70000 else TIE_DTYPES[rng.randrange(len(TIE_DTYPES))])
        hi = rng.choice([1, 7, 1000, 30000])
        par_ = {"kind": "TS", "n": n, "dtype": dt, "hi": min(hi, TIE_HI.get(dt, hi)), "vseed": rng.randrange(1 << 30)}
        c, out = _tie_case("ts%d" % k, par_["n"], par_["dtype"], par_["hi"], par_["vseed"])
        ties.append((par_, c))
        outcome[c["id"]] = out
    # self-tests on a mid-size case: a rank used twice at the very end; two ranks exchanged across a value step
    base = min((c for _, c in ties if len(c["r"]) == len(c["v"])), key=lambda c: len(c["v"]), default=None)
    st = []
    if base is not None:
        r1 = list(base["r"])
        r1[-1] = r1[0]
        st.append((_cert(dict(base, r=r1)), "rank-permutation"))
        order = np.argsort(np.array(base["v"]), kind="stable")
        lo_i, hi_i = int(order[0]), int(order[-1])
        if base["v"][lo_i] < base["v"][hi_i]:
            r2 = list(base["r"])
            r2[lo_i], r2[hi_i] = r2[hi_i], r2[lo_i]
            st.append((_cert(dict(base, r=r2)), "rank-permutation"))
    # the small tie cases go through the certificate judge as well: both judges must agree on every one of them
    small = [_cert(dict({k: c[k] for k in ("v", "r")}, id="x" + c["id"])) for c in small_ties]
    if quick:                     # one TLC run (about 3 MB of JSON)
        rej = ctx.trace("Trace_RankScale", [c for _, c in ties] + small, selftest=st, chunk=len(ties) + len(small) + len(st), timeout=1800)
    else:                         # a few MB of JSON per TLC run
        rej = ctx.trace("Trace_RankScale", [c for _, c in ties], selftest=st, chunk=4, timeout=1800)
        rej.update(ctx.trace("Trace_RankScale", small))
    agree = {("x" + cid) for cid in small_rejected}
    got = {cid for cid in rej if cid.startswith("x")}
    if agree != got:
        from harness.main import Machinery
        raise Machinery("Trace_Rank and Trace_RankScale disagree on small vectors: %s vs %s" % (sorted(small_rejected)[:5], sorted(got)[:5]))
    for par_, c in ties:
        ctx.count(("TS", par_), True)
        if c["id"] in rej:
            ctx.violation("rank-permutation", par_, {"n": par_["n"], "dtype": par_["dtype"], "outcome": outcome[c["id"]], "verdict": [str(x)[:200] for x in rej[c["id"]][0]]})
    ctx.extra["scale"] = {"sizes": sizes, "jobs": len(jobs), "library_calls": calls, "returned_values_compared": values,
                          "shapes": list(SHAPES), "rank_tie_vectors": [[p["n"], p["dtype"], p["hi"]] for p, _ in ties],
                          "small_tie_vectors_cross_judged": len(small)}


def run(ctx):
    global SCALES
    ctx.rule = ("TLC enumerates the complete integer grid: every chord (a,b) with every grid point as query, "
                "rectangle pairs, point triples, value vectors; expected values are exact rationals from Geometry.tla. "
                "non-trivial: non-degenerate chord / positive overlap / non-collinear distinct triple / vector of length > 1. "
                "Scale family: the same TLC cases blown up to 200 .. 110000 points / values (sizes just above 256 .. 10^5 and 20000 / 50001 / 100003, "
                "consecutive lengths; tiled / random / long-run index sequences over the pattern; whole ranges, long and short sub-ranges deep inside longer "
                "arrays; strided and int64 inputs; the check's scales / offsets): every returned value of shortest / perpendicular / sub-range / Euclidean "
                "distance, rank (distinct) and distance-to-similarity equals the pattern's exact Term; rank with ties on vectors up to 10^5 (element types "
                "narrower than the ranks included) is judged by TLC from a linear certificate (Trace_RankScale, proved equivalent to RankOk on short vectors). "
                "Far-integer family: the same TLC cases (at pattern size and at the scale sizes) as int64 curves translated by +-2^53 .. 2^62 on x, on y or on both "
                "(Python-int offsets not representable in binary64, integer steps 1 .. 1000; contiguous and strided; whole ranges and sub-ranges inside longer "
                "arrays): shortest / Euclidean / perpendicular / sub-range distances still equal the pattern's exact Term times the step (translation invariance, "
                "the coordinate differences are exact in int64)")
    ctx.assumptions += numeric.ASSUMPTIONS + [
        "square roots are applied last in binary64 to exact rational squares",
        "triangle_area is compared in absolute value (the library returns the signed area)",
        "every case is also replayed translated by -2 (coordinates on both sides of zero) and by 2^30 (coordinates stay exactly representable; distances, IoU and curvature "
        "are translation invariant), thorough adds a scaled/translated and a down-scaled copy"]
    if not ctx.quick:
        SCALES = [(1.0, 0.0), (1.0, 1073741824.0), (1.0, -2.0), (1024.0, 1048576.0), (0.0009765625, 0.0), (1.0, -1073741824.0), (2.0 ** -40, 0.0)]
    cfg = "Gen_Geometry_quick" if ctx.quick else "Gen_Geometry_thorough"
    beh = ctx.gen("Gen_Geometry", cfg, workers=1)
    ctx.exhaustive = True
    res = par.pmap(_replay_line, beh)
    seen = set()
    for b, bad in zip(beh, res):
        ctx.count(("G", b), _nontrivial(b))
        for clause, detail in bad:
            key = (clause, b["kind"])
            # one replay file per (clause, kind) is enough to reproduce; count all
            if key in seen:
                ctx.extra["suppressed_duplicates"] = ctx.extra.get("suppressed_duplicates", 0) + 1
                continue
            seen.add(key)
            ctx.violation(clause, {"kind": "G", "behaviour": b}, detail)
    ctx.traces += len(beh)
    ctx.sample({"binding": "G", "behaviour": next(b for b in beh if b["kind"] == "rect" and b["iou"][0] > 0)})
    ctx.sample({"binding": "G", "behaviour": next(b for b in beh if b["kind"] == "tri" and b["cross"] != 0)})
    # ---- T: rank with ties
    import kneeliverse.knee_ranking as kr
    cases = []
    for b in beh:
        if b["kind"] == "rank" and not b["distinct"]:
            try:
                r = [int(x) for x in kr.rank(np.array(b["v"], float)).tolist()]
            except Exception as ex:
                r = []
            cases.append({"id": "r%d" % len(cases), "v": b["v"], "r": r})
    # value vectors of other sizes and element types (the ranks 0..n-1 need not fit the element type)
    import random
    rng = random.Random(ctx.seed + 17)
    for n in (5, 40, 300):
        for dt in ("float64", "float32", "float16", "int64", "int32", "int16", "int8", "uint8", "bool"):
            hi = {"int8": 100, "uint8": 200, "bool": 1, "float16": 60}.get(dt, 1000)
            vals = [rng.randint(0, hi) for _ in range(n)]
            arr = np.array(vals).astype(dt)
            try:
                r = [int(x) for x in np.asarray(kr.rank(arr)).tolist()]
            except Exception:
                r = []
            cases.append({"id": "r%d" % len(cases), "v": [int(x) for x in arr.astype(float).tolist()], "r": r, "dtype": dt})
    corrupt = dict(cases[0], r=[0] * len(cases[0]["v"]))
    rej = ctx.trace("Trace_Rank", [{k: c[k] for k in ("id", "v", "r")} for c in cases], selftest=[(corrupt, "rank-permutation")])
    byid = {c["id"]: c for c in cases}
    for cid, vs in rej.items():
        ctx.violation("rank-permutation", {"kind": "T", "v": byid[cid]["v"], "dtype": byid[cid].get("dtype", "float64")},
                      {"verdict": [str(x)[:200] for x in vs[0]], "dtype": byid[cid].get("dtype", "float64")})
    for c in cases:
        ctx.count(("T", c["v"]), True)
    # ---- S: production-size inputs
    _run_scale(ctx, beh, cases, set(rej))
    ctx.assumptions.append("scale family: expected values are the TLC Terms of the small pattern, indexed by the position's pattern entry (no new oracle); "
                           "tolerances are those of the small cases (every returned value is point-wise, no long sums)")
    ctx.assumptions.append("far-integer family: int64 only, |coordinate| < 2^63 and coordinate differences below 2^14, so the differences and the integer cross "
                           "product of the unchanged code are exact; no tolerance depends on the coordinate magnitude")
    # ---- growth beyond C17: the knee-ranking heuristics built on these primitives (notes only)
    from harness import growth
    growth.safe(ctx, growth.ranking)


def replay(ctx, obj):
    case = obj["case"]
    if case["kind"] == "G":
        for clause, detail in _replay_line(case["behaviour"]):
            ctx.violation(clause, case, detail)
    elif case["kind"] == "S":
        bad, _ = _scale_job(case)
        for clause, detail in bad:
            ctx.violation(clause, case, detail)
    elif case["kind"] == "TS":
        c, out = _tie_case("ts0", case["n"], case["dtype"], case["hi"], case["vseed"])
        rej = ctx.trace("Trace_RankScale", [c])
        for cid, vs in rej.items():
            ctx.violation("rank-permutation", case, {"n": case["n"], "dtype": case["dtype"], "outcome": out, "verdict": [str(x)[:200] for x in vs[0]]})
    else:
        import kneeliverse.knee_ranking as kr
        r = [int(x) for x in kr.rank(np.array(case["v"]).astype(case.get("dtype", "float64"))).tolist()]
        rej = ctx.trace("Trace_Rank", [{"id": "r0", "v": case["v"], "r": r}])
        for cid, vs in rej.items():
            ctx.violation("rank-permutation", case, {"verdict": vs[0]})
