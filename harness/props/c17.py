"""C17 - geometric and ranking primitives equal their geometric definitions.
M: algebraic laws of Geometry.tla on the complete 0..G grid (invariants of Gen_Geometry).
G: every case with its exact rational expected value, replayed into the real primitives.
T: kr.rank on vectors with ties judged by RankOk (Trace_Rank)."""
import math

import numpy as np

from harness import numeric, par

SCALES = [(1.0, 0.0), (1.0, 1073741824.0), (1.0, -2.0), (2.0 ** -40, 0.0)]     # plain grid; far from the origin (translation invariance); tiny units (scale covariance, exact)


def _close(got, exp):
    return numeric.close(got, exp, rel=1e-9, ab=1e-12 * max(1.0, abs(exp)))


def _q(q):
    return q[0] / q[1]


def _check(b, scale=1.0, off=0.0):
    import kneeliverse.linear_fit as lf
    import kneeliverse.knee_ranking as kr
    import kneeliverse.menger as menger
    import kneeliverse.postprocessing as pp
    bad = []
    T = lambda p: np.array([p[0] * scale + off, p[1] * scale + off], float)

    def guard(clause, fn):
        try:
            fn()
        except AssertionError as ex:
            bad.append((clause, ex.args[0] if ex.args else None))
        except Exception as ex:
            bad.append((clause, {"raised": repr(ex)[:300]}))

    k = b["kind"]
    if k == "seg":
        a, bb = T(b["a"]), T(b["b"])
        P = np.array([T(p) for p in b["pts"]])
        exp = [math.sqrt(_q(q)) * scale for q in b["d2seg"]]

        def f1():
            got = lf.shortest_distance_points(P, a, bb)
            assert len(got) == len(exp), {"len": len(got)}
            for i in range(len(exp)):
                assert _close(got[i], exp[i]), {"p": b["pts"][i], "got": float(got[i]), "expected": exp[i]}
        guard("shortest-distance" if b["a"] != b["b"] else "degenerate-chord", f1)
        if b["a"] != b["b"] and b["a"][1] == 0 and b["b"][1] == 0 and off == 0.0:
            def f1t():
                # mixed magnitudes: the chord's far end lifted by 1e-200 (its square underflows harmlessly); distances are
                # unchanged to 200 digits.  Exposes floating-point traps / fallbacks taken on harmless underflow.
                bt = bb + np.array([0.0, 1e-200])
                got = lf.shortest_distance_points(P, a, bt)
                assert len(got) == len(exp), {"len": len(got)}
                for i in range(len(exp)):
                    assert _close(got[i], exp[i]), {"p": b["pts"][i], "got": float(got[i]), "expected": exp[i], "chord_end_lifted_by": 1e-200}
            guard("shortest-distance", f1t)
        if b["a"] != b["b"]:
            expp = [math.sqrt(_q(q)) * scale for q in b["perp2"]]

            def f2():
                got = lf.perpendicular_distance_points(P, a, bb)
                for i in range(len(expp)):
                    assert _close(got[i], expp[i]), {"p": b["pts"][i], "got": float(got[i]), "expected": expp[i]}
            guard("perpendicular-distance", f2)

            def f3():
                arr = np.vstack([a[None, :], P, bb[None, :]])
                got = lf.perpendicular_distance(arr)
                e = [0.0] + expp + [0.0]
                assert len(got) == len(e), {"len": len(got)}
                for i in range(len(e)):
                    assert _close(got[i], e[i]), {"i": i, "got": float(got[i]), "expected": e[i]}
            guard("perpendicular-distance", f3)

            def f4():
                pad = np.array([[-5.0 * scale + off, 7.0 * scale + off]])
                arr = np.vstack([pad, pad + 1, a[None, :], P, bb[None, :], pad])
                got = lf.perpendicular_distance_index(arr, 2, 2 + len(P) + 1)
                e = [0.0] + expp + [0.0]
                assert len(got) == len(e), {"len": len(got), "expected_len": len(e)}
                for i in range(len(e)):
                    assert _close(got[i], e[i]), {"i": i, "got": float(got[i]), "expected": e[i]}
            guard("perpendicular-subrange", f4)

            def f4s():
                # the smallest ranges: the two end points alone, and one interior point between them
                pad = np.array([[-5.0 * scale + off, 7.0 * scale + off]])
                got = lf.perpendicular_distance_index(np.vstack([pad, a[None, :], bb[None, :], pad]), 1, 2)
                assert len(got) == 2 and _close(got[0], 0.0) and _close(got[1], 0.0), {"range": "2 points", "got": [float(v) for v in got]}
                for jj in range(min(len(P), 4)):
                    arr = np.vstack([pad, a[None, :], P[jj][None, :], bb[None, :], pad])
                    for name, got in (("perpendicular_distance_index", lf.perpendicular_distance_index(arr, 1, 3)),
                                      ("perpendicular_distance", lf.perpendicular_distance(arr[1:4]))):
                        e = [0.0, expp[jj], 0.0]
                        assert len(got) == 3, {"fn": name, "len": len(got)}
                        for i in range(3):
                            assert _close(got[i], e[i]), {"fn": name, "range": "3 points", "p": b["pts"][jj], "i": i, "got": float(got[i]), "expected": e[i]}
            guard("perpendicular-subrange", f4s)

            if scale == 1.0 and off in (0.0, -2.0):
                def f4i():
                    # the same integral points stored as an int64 array: distances are real numbers whatever the input dtype
                    arr = np.vstack([a[None, :], P, bb[None, :]]).astype(np.int64)
                    e = [0.0] + expp + [0.0]
                    for name, got in (("perpendicular_distance[int64]", lf.perpendicular_distance(arr)),
                                      ("perpendicular_distance_index[int64]", lf.perpendicular_distance_index(arr, 0, len(arr) - 1)),
                                      ("perpendicular_distance_points[int64]", np.concatenate(([0.0], np.asarray(lf.perpendicular_distance_points(arr[1:-1], arr[0], arr[-1]), float), [0.0])))):
                        assert len(got) == len(e), {"fn": name, "len": len(got)}
                        for i in range(len(e)):
                            assert _close(float(got[i]), e[i]), {"fn": name, "i": i, "got": float(got[i]), "expected": e[i]}
                guard("perpendicular-distance", f4i)

        def f5():
            got = kr.distances(a, P)
            e = [math.sqrt(v) * scale for v in b["d2a"]]
            for i in range(len(e)):
                assert _close(got[i], e[i]), {"i": i, "got": float(got[i]), "expected": e[i]}
        guard("euclidean-distances", f5)
    elif k == "rect":
        e = _q(b["iou"])

        def f():
            amin, amax = kr.rect(T(b["a"]), T(b["b"]))
            bmin, bmax = kr.rect(T(b["p"]), T(b["q"]))
            got = kr.rect_overlap(amin, amax, bmin, bmax)
            assert _close(got, e), {"got": float(got), "expected": e}
            got2 = kr.rect_overlap(bmin, bmax, amin, amax)
            assert _close(got2, got), {"asymmetric": [float(got), float(got2)]}
        guard("iou", f)
    elif k == "tri":
        if b["distinct"]:
            e = math.sqrt(_q(b["menger2"])) / scale

            def f():
                got = menger.menger_curvature(T(b["f"]), T(b["g"]), T(b["h"]))
                assert _close(got, e), {"got": float(got), "expected": e}
                got2 = menger.menger_curvature(T(b["g"]), T(b["f"]), T(b["h"]))
                assert _close(got2, e), {"asymmetric": [float(got), float(got2)]}
            guard("menger", f)

        def g():
            got = pp.triangle_area(np.array([T(b["f"]), T(b["g"]), T(b["h"])]))
            e2 = abs(b["cross"]) / 2.0 * scale * scale
            # the shoelace form multiplies coordinates: absolute rounding error grows with |offset| * extent
            assert numeric.close(abs(got), e2, rel=1e-9, ab=1e-9 * scale * scale + 4e-16 * (abs(off) + 4 * scale) * 4 * scale * 8), \
                {"got": float(got), "expected": e2}
        guard("triangle-area", g)
    elif k == "rank":
        v = np.array(b["v"], float) * scale + off
        if b["distinct"]:
            def f():
                got = [int(x) for x in kr.rank(v).tolist()]
                assert got == list(b["rank"]), {"got": got, "expected": b["rank"]}
                goti = [int(x) for x in kr.rank(np.array(b["v"], dtype=np.int64)).tolist()]
                assert goti == list(b["rank"]), {"got_int": goti, "expected": b["rank"]}
            guard("rank-permutation", f)

        def g():
            got = kr.distance_to_similarity(v)
            e = [max(v) - x for x in v]
            for i in range(len(e)):
                assert _close(got[i], e[i]), {"got": float(got[i]), "expected": e[i]}
        guard("distance-to-similarity", g)
    return bad


def _replay_line(b):
    out = []
    for s, o in SCALES:
        for clause, detail in _check(b, s, o):
            out.append((clause, dict(detail or {}, scale=s, offset=o) if isinstance(detail, dict) else detail))
    return out


def _nontrivial(b):
    k = b["kind"]
    if k == "seg":
        return b["a"] != b["b"]
    if k == "rect":
        return b["iou"][0] > 0
    if k == "tri":
        return b["distinct"] and b["cross"] != 0
    return len(b["v"]) > 1


def run(ctx):
    global SCALES
    ctx.rule = ("TLC enumerates the complete integer grid: every chord (a,b) with every grid point as query, "
                "rectangle pairs, point triples, value vectors; expected values are exact rationals from Geometry.tla. "
                "non-trivial: non-degenerate chord / positive overlap / non-collinear distinct triple / vector of length > 1")
    ctx.assumptions += numeric.ASSUMPTIONS + [
        "square roots are applied last in binary64 to exact rational squares",
        "triangle_area is compared in absolute value (the library returns the signed area)",
        "every case is also replayed translated by -2 (coordinates on both sides of zero) and by 2^30 (coordinates stay exactly representable; distances, IoU and curvature "
        "are translation invariant), thorough adds a scaled/translated and a down-scaled copy"]
    if not ctx.quick:
        SCALES = [(1.0, 0.0), (1.0, 1073741824.0), (1.0, -2.0), (1024.0, 1048576.0), (0.0009765625, 0.0), (1.0, -1073741824.0), (2.0 ** -40, 0.0)]
    cfg = "Gen_Geometry_quick" if ctx.quick else "Gen_Geometry_thorough"
    beh = ctx.gen("Gen_Geometry", cfg, workers=1)
    ctx.exhaustive = True
    res = par.pmap(_replay_line, beh)
    seen = set()
    for b, bad in zip(beh, res):
        ctx.count(("G", b), _nontrivial(b))
        for clause, detail in bad:
            key = (clause, b["kind"])
            # one replay file per (clause, kind) is enough to reproduce; count all
            if key in seen:
                ctx.extra["suppressed_duplicates"] = ctx.extra.get("suppressed_duplicates", 0) + 1
                continue
            seen.add(key)
            ctx.violation(clause, {"kind": "G", "behaviour": b}, detail)
    ctx.traces += len(beh)
    ctx.sample({"binding": "G", "behaviour": next(b for b in beh if b["kind"] == "rect" and b["iou"][0] > 0)})
    ctx.sample({"binding": "G", "behaviour": next(b for b in beh if b["kind"] == "tri" and b["cross"] != 0)})
    # ---- T: rank with ties
    import kneeliverse.knee_ranking as kr
    cases = []
    for b in beh:
        if b["kind"] == "rank" and not b["distinct"]:
            try:
                r = [int(x) for x in kr.rank(np.array(b["v"], float)).tolist()]
            except Exception as ex:
                r = []
            cases.append({"id": "r%d" % len(cases), "v": b["v"], "r": r})
    # value vectors of other sizes and element types (the ranks 0..n-1 need not fit the element type)
    import random
    rng = random.Random(ctx.seed + 17)
    for n in (5, 40, 300):
        for dt in ("float64", "float32", "float16", "int64", "int32", "int16", "int8", "uint8", "bool"):
            hi = {"int8": 100, "uint8": 200, "bool": 1, "float16": 60}.get(dt, 1000)
            vals = [rng.randint(0, hi) for _ in range(n)]
            arr = np.array(vals).astype(dt)
            try:
                r = [int(x) for x in np.asarray(kr.rank(arr)).tolist()]
            except Exception:
                r = []
            cases.append({"id": "r%d" % len(cases), "v": [int(x) for x in arr.astype(float).tolist()], "r": r, "dtype": dt})
    corrupt = dict(cases[0], r=[0] * len(cases[0]["v"]))
    rej = ctx.trace("Trace_Rank", [{k: c[k] for k in ("id", "v", "r")} for c in cases], selftest=[(corrupt, "rank-permutation")])
    byid = {c["id"]: c for c in cases}
    for cid, vs in rej.items():
        ctx.violation("rank-permutation", {"kind": "T", "v": byid[cid]["v"], "dtype": byid[cid].get("dtype", "float64")},
                      {"verdict": [str(x)[:200] for x in vs[0]], "dtype": byid[cid].get("dtype", "float64")})
    for c in cases:
        ctx.count(("T", c["v"]), True)
    # ---- growth beyond C17: the knee-ranking heuristics built on these primitives (notes only)
    from harness import growth
    growth.safe(ctx, growth.ranking)


def replay(ctx, obj):
    case = obj["case"]
    if case["kind"] == "G":
        for clause, detail in _replay_line(case["behaviour"]):
            ctx.violation(clause, case, detail)
    else:
        import kneeliverse.knee_ranking as kr
        r = [int(x) for x in kr.rank(np.array(case["v"]).astype(case.get("dtype", "float64"))).tolist()]
        rej = ctx.trace("Trace_Rank", [{"id": "r0", "v": case["v"], "r": r}])
        for cid, vs in rej.items():
            ctx.violation("rank-permutation", case, {"verdict": vs[0]})
