"""C11 - 1-D linkage clustering follows its stated threshold rule.
M: Clustering.tla - one implementation-shaped machine per linkage (previous x / anchor / exact centroid + size /
   window start) checked against the declarative NewCluster definition (RuleHolds, StateAgrees, EqualsDefinition,
   JudgeAccepts, MonotoneInT); negative instances `>` for `>=`, stale anchor, window off by one must violate RuleHolds.
G: the same module with Emit=TRUE enumerates every strictly increasing integer layout x every threshold j/d x 4
   linkages; expected labels (both label vectors when a centroid tie is ambiguous) are replayed into the code.
T: random float layouts: decision tables from exact Fraction arithmetic on the float x values and the labels the
   code returned, judged by Trace_Clustering (TableClause / MonoClause); cluster counts of single / complete
   linkage per layout for increasing t (both for the grid layouts of G and for the float layouts)."""
from fractions import Fraction as Fr

import numpy as np

from harness import par

LINKS = ("single", "complete", "centroid", "average")
NEAR_REL = 1e-12
MERGE, SPLIT, NEAR = 1, 2, 3


def _fn(link):
    import kneeliverse.clustering as cl
    return {"single": cl.single_linkage, "complete": cl.complete_linkage,
            "centroid": cl.centroid_linkage, "average": cl.average_linkage}[link]


def _heights(n):
    return (np.arange(n) * 7 % 5).astype(float)


def _call(link, x, t, dtype=float):
    """-> (labels list, None) or (None, repr of the exception)."""
    if dtype is np.int64:          # built from Python ints: values above 2^53 must not pass through binary64
        P = np.column_stack([np.array([int(v) for v in x], dtype=np.int64), np.asarray(_heights(len(x))).astype(np.int64)])
    else:
        x = np.asarray(x, float)
        P = np.column_stack([x, _heights(len(x))]).astype(dtype)
    try:
        r = _fn(link)(P, t)
        return [int(v) for v in np.asarray(r).tolist()], None
    except Exception as ex:                       # an exception of the code under test is an observation
        return None, repr(ex)[:200]


def _shape_clause(got, n):
    if len(got) != n:
        return "one-label-per-point"
    if got[0] != 0:
        return "labels-start-at-0"
    if any(got[k] - got[k - 1] not in (0, 1) for k in range(1, n)):
        return "contiguous"
    return None


# ------------------------------------------------------------------ binding G
def _replay_group(g):
    """One (layout, t, linkage) with the allowed label vectors -> (mismatches, labels on the plain layout)."""
    bad = []
    x = g["x"]
    t = g["tnum"] / g["tden"]
    first = None
    # the rule is invariant under x -> a*x + b; both variants are exact in binary64 (dyadic a, small integers)
    # ... and the same integer layout stored as an int64 array (the property quantifies over arrays of points)
    variants = [("grid", [float(v) for v in x]), ("affine", [0.25 * v + 100.0 for v in x]), ("int64", [int(v) for v in x]),
                ("tiny", [v * 2.0 ** -40 for v in x])]      # the whole layout within 1e-11 (exact scaling): the rule is scale invariant
    if g["link"] in ("single", "complete"):
        # integer abscissae beyond 2^53 (nanosecond timestamps): gaps and range are exact in int64, not in binary64
        variants.append(("int64-big", [int(v) + 2 ** 60 for v in x]))
    for name, xv in variants:
        got, err = _call(g["link"], xv, t, np.int64 if name.startswith("int64") else float)
        if first is None:
            first = got
        if err is not None:
            bad.append(("returns", {"variant": name, "raised": err}))
            continue
        cl = _shape_clause(got, len(x))
        if cl is None and got not in g["allowed"]:
            cl = "rule(%s)" % g["link"]
        if cl is not None:
            bad.append((cl, {"variant": name, "got": got, "allowed": g["allowed"], "t": "%d/%d" % (g["tnum"], g["tden"])}))
    return bad, first


def _group(beh):
    groups = {}
    for b in beh:
        k = (tuple(b["x"]), b["tnum"], b["tden"], b["link"])
        g = groups.setdefault(k, {"x": b["x"], "tnum": b["tnum"], "tden": b["tden"], "link": b["link"],
                                  "allowed": [], "tie": False, "amb": False})
        if b["labels"] not in g["allowed"]:
            g["allowed"].append(b["labels"])
        g["tie"] = g["tie"] or b["tie"]
        g["amb"] = g["amb"] or b["amb"]
    return list(groups.values())


# ------------------------------------------------------------------ binding T
def _link_dist(xf, link, s, k):
    """Exact linkage distance of point k to the cluster s..k-1 (0-based), as the property states it."""
    if link == "single":
        return xf[k] - xf[k - 1]
    if link == "complete":
        return xf[k] - xf[s]
    m = k - s
    if link == "centroid":
        return abs(xf[k] - sum(xf[s:k]) / m)
    return sum(abs(xf[k] - v) for v in xf[s:k]) / m


def _table(x, link, t):
    """tab[s][k] (0-based here, rows/cols of length n): decision for a cluster starting at s and point k > s."""
    xf = [Fr(v) for v in x]
    n = len(xf)
    L = xf[-1] - xf[0]
    tt = Fr(t)
    tol = Fr(NEAR_REL) * (tt + max(abs(v) for v in xf) / L)
    tab = [[0] * n for _ in range(n)]
    for s in range(n):
        ks = range(s + 1, n)
        for k in ks:
            if link == "single" and s > 0:
                tab[s][k] = tab[0][k]
                continue
            r = _link_dist(xf, link, s, k) / L
            tab[s][k] = NEAR if abs(r - tt) <= tol else (SPLIT if r >= tt else MERGE)
    return tab


def _record(item):
    cid, x, t, link = item
    got, err = _call(link, x, t)
    if err is not None:
        return {"id": cid, "error": err}
    cl = _shape_clause(got, len(x))
    tab = _table(x, link, t)
    # non-trivial: some cluster has >= 2 members and no decision on the walked path was within noise
    multi = cl is None and any(got[k] == got[k - 1] for k in range(1, len(got)))
    near = any(v == NEAR for row in tab for v in row)
    return {"id": cid, "kind": "rule", "link": link, "n": len(x), "labels": got, "tab": tab,
            "_nontrivial": bool(multi), "_near": bool(near)}


def _layouts(ctx):
    rng = ctx.rng
    out = []
    m = 30 if ctx.quick else 240
    for _ in range(m):
        n = rng.randint(2, 16)
        out.append(sorted(rng.uniform(0.0, 100.0) for _ in range(n)))
    for _ in range(m):                                # blobs: many multi-member clusters
        n = rng.randint(3, 16)
        cs = [rng.uniform(-50.0, 50.0) for _ in range(rng.randint(1, 4))]
        out.append(sorted(rng.choice(cs) + rng.gauss(0.0, 1.5) for _ in range(n)))
    for _ in range(m):                                # growing gaps
        n = rng.randint(3, 14)
        x, g = [rng.uniform(0, 5)], rng.uniform(0.1, 1.0)
        for _ in range(n - 1):
            x.append(x[-1] + g)
            g *= rng.uniform(1.0, 1.8)
        out.append(x)
    for n in ([60, 120] if ctx.quick else [120, 300, 300]):     # long layouts (size-dependent code paths)
        cs = [rng.uniform(0.0, 1000.0) for _ in range(rng.randint(3, 12))]
        out.append(sorted(rng.choice(cs) + rng.gauss(0.0, 8.0) for _ in range(n)))
    for _ in range(m):                                # integer-valued floats: exact ties become "near"
        n = rng.randint(2, 12)
        out.append([float(v) for v in sorted(rng.sample(range(0, 33), n))])
    for _ in range(max(4, m // 4)):                   # a tight group and a far outlier: normalised distances around 1e-7
        n = rng.randint(3, 8)
        out.append([float(v) for v in sorted(rng.sample(range(0, 12), n))] + [float(rng.choice([10 ** 7, 3 * 10 ** 7, 2 ** 24]))])
    return [x for x in out if all(x[j] < x[j + 1] for j in range(len(x) - 1)) and x[-1] - x[0] >= 1.0]


def _thresholds(rng, x):
    ts = rng.sample([0.01, 0.05, 0.1, 0.125, 0.2, 0.25, 0.3, 0.5, 0.75, 1.0], 3)
    j = rng.randrange(1, len(x))
    ts.append((x[j] - x[j - 1]) / (x[-1] - x[0]))      # harvested: an observed normalised gap
    if rng.random() < 0.3:
        ts.append(rng.choice([1.5, 3.0, 50.0]))        # t > 1 is a valid threshold: normalised distances never reach it
    if x[-1] - x[0] >= 10 ** 6:
        ts += [5e-8, 2.5e-7]                            # tiny thresholds are valid too (t > 0)
    return sorted(set(t for t in ts if t > 0))


STATIC_RULE = {"kind": "rule", "link": "complete", "n": 5, "labels": [0, 0, 1, 1, 2],     # x = 0..4, t = 1/2
               "tab": [[0 if k <= s else (SPLIT if k - s >= 2 else MERGE) for k in range(5)] for s in range(5)]}
STATIC_MONO = {"kind": "mono", "counts": [4, 3, 3, 1]}


def _selftests():
    return [(STATIC_RULE, "ok"), (STATIC_MONO, "ok"),
            (dict(STATIC_RULE, labels=[1, 1, 2, 2, 3]), "labels-start-at-0"),
            (dict(STATIC_RULE, labels=[0, 0, 2, 2, 3]), "contiguous"),
            (dict(STATIC_RULE, labels=[0, 0, 1, 2, 3]), "rule(complete)"),       # anchor not moved on the split
            (dict(STATIC_RULE, labels=[0, 0, 0, 1, 1]), "rule(complete)"),       # tie taken as merge (`>`)
            (dict(STATIC_RULE, labels=[0, 0, 1, 1]), "one-label-per-point"),
            (dict(STATIC_MONO, counts=[4, 2, 3, 1]), "monotone-in-t")]


def _mono_counts(item):
    cid, x, ts, link = item
    counts = []
    for t in ts:
        got, err = _call(link, x, t)
        if err is not None or not got:
            return None
        counts.append(got[-1] + 1)
    return {"id": cid, "kind": "mono", "counts": counts}


def _strip(c):
    return {k: v for k, v in c.items() if not k.startswith("_")}


def run(ctx):
    ctx.rule = ("G: every strictly increasing integer layout in 0..G with 2..NMax points x every t = j/d x 4 linkages, "
                "generated by TLC from Clustering.tla (checked there against the declarative NewCluster rule) and replayed "
                "into clustering.* on the layout and on an exact affine image of it; T: random float layouts (uniform, "
                "blobs, growing gaps, integer-valued) x 4 thresholds (one harvested from an observed gap) x 4 linkages "
                "judged by Trace_Clustering on Fraction decision tables; cluster counts of single/complete per layout for "
                "increasing t.  non-trivial: at least one multi-member cluster or an exact tie distance == t (float layouts: a "
                "multi-member cluster and no decision within noise of t; count sequences: the count actually changes)")
    ctx.assumptions += [
        "grid domain: one correctly rounded division of small integers compared with fl(p/q) decides like the rationals",
        "centroid linkage with current cluster size >= 2 and distance/range == t exactly is ambiguous: both label vectors allowed",
        "float layouts: a decision whose exact ratio is within 1e-12 * (t + max|x|/range) of t is 'near': either side allowed",
        "TLC, SANY, CommunityModules, CPython fractions, NumPy are trusted"]
    acts = ("SingleStep", "CompleteStep", "CentroidMerge", "CentroidSplit", "AverageStep", "Return")
    # ---- M
    for v in ("strict", "stale", "window"):
        ctx.mc("Clustering", "MC_Clustering_" + v, expect="RuleHolds")
    ctx.mc("Clustering", "MC_Clustering_small" if ctx.quick else "MC_Clustering", need_actions=acts)
    # every complete-linkage step of the machine is a ScanStep of CompleteMonoProof.tla, whose two-scan product is proved
    # monotone in the threshold for EVERY layout (TLAPS, CompleteMonoProof_proofs.tla); the stale-anchor variant is not
    ctx.mc("CompleteMonoRefines", "MC_CompleteMonoRefines", need_actions=("CompleteStep",))
    ctx.mc("CompleteMonoRefines", "MC_CompleteMonoRefines_neg", expect="IsScanStep")
    if not ctx.quick:
        from harness import proofs
        proofs.recheck(ctx, ["CompleteMonoProof_proofs"])
    # ---- G
    beh = ctx.gen("Clustering", "Gen_Clustering_quick" if ctx.quick else "Gen_Clustering_thorough", timeout=3000)
    ctx.exhaustive = True
    groups = _group(beh)
    res = par.pmap(_replay_group, groups)
    seen = {}
    by_layout = {}
    for g, (bad, got) in zip(groups, res):
        multi = any(any(l[k] == l[k - 1] for k in range(1, len(l))) for l in g["allowed"])
        ctx.count(("G", g["x"], g["tnum"], g["tden"], g["link"]), multi or g["tie"])
        for clause, detail in bad:
            seen[clause] = seen.get(clause, 0) + 1
            if seen[clause] <= 3:
                ctx.violation(clause, {"kind": "G", "group": g}, detail)
        if g["link"] in ("single", "complete"):
            by_layout.setdefault((tuple(g["x"]), g["link"]), []).append((Fr(g["tnum"], g["tden"]), g["tnum"], g["tden"]))
    ctx.extra["violating_groups_by_clause"] = dict(seen)
    ctx.extra["ambiguous_centroid_groups"] = sum(1 for g in groups if g["amb"])
    ctx.traces += len(groups)
    for pick in (lambda g: g["amb"] and len(g["allowed"]) > 1,
                 lambda g: g["link"] == "average" and g["tie"] and len(g["x"]) == 5):
        s = next((g for g in groups if pick(g)), None)
        if s is not None:
            ctx.sample({"binding": "G", "group": s})
    # ---- monotonicity of the code's cluster counts on the grid layouts
    mono_items, mono_meta = [], {}
    for (x, link), ts in by_layout.items():
        ts = sorted(set(ts))
        if len(ts) < 2:
            continue
        cid = "gm%d" % len(mono_items)
        tl = [[p, q] for _, p, q in ts]
        mono_items.append((cid, [float(v) for v in x], [p / q for p, q in tl], link))
        mono_meta[cid] = {"kind": "mono", "x": [float(v) for v in x], "ts": [p / q for p, q in tl], "link": link}
    # ---- T: float layouts
    items, meta = [], {}
    for li, x in enumerate(_layouts(ctx)):
        ts = _thresholds(ctx.rng, x)
        for link in LINKS:
            for ti, t in enumerate(ts):
                cid = "t%d-%s-%d" % (li, link, ti)
                items.append((cid, x, t, link))
                meta[cid] = {"kind": "T", "x": x, "t": t, "link": link}
            if link in ("single", "complete") and len(ts) >= 2:
                cid = "tm%d-%s" % (li, link)
                mono_items.append((cid, x, ts, link))
                mono_meta[cid] = {"kind": "mono", "x": x, "ts": ts, "link": link}
    rec = par.pmap(_record, items)
    cases = []
    for r in rec:
        if "error" in r:
            ctx.violation("returns", meta[r["id"]], {"raised": r["error"]})
            continue
        cases.append(r)
        ctx.count(("T", meta[r["id"]]["x"], meta[r["id"]]["t"], r["link"]), r["_nontrivial"] and not r["_near"])
    monos = [m for m in par.pmap(_mono_counts, mono_items) if m is not None]
    for m in monos:
        ctx.count(("mono", mono_meta[m["id"]]["x"], mono_meta[m["id"]]["link"]), len(set(m["counts"])) > 1)
    rej = ctx.trace("Trace_Clustering", [_strip(c) for c in cases] + monos, selftest=_selftests(), chunk=1500)
    meta.update(mono_meta)
    for cid, vs in rej.items():
        ctx.violation(vs[0][0], meta[cid], {"verdict": vs[0]})
    ctx.extra["float_cases_with_near_decisions"] = sum(1 for c in cases if c["_near"])
    ex = next((c for c in cases if c["_nontrivial"] and not c["_near"] and 5 <= c["n"] <= 7), None)
    if ex is not None:
        ctx.sample({"binding": "T", "call": meta[ex["id"]], "case": _strip(ex)})


def replay(ctx, obj):
    c = obj["case"]
    if c["kind"] == "G":
        bad, _ = _replay_group(c["group"])
        for clause, detail in bad:
            ctx.violation(clause, c, detail)
        return
    if c["kind"] == "mono":
        m = _mono_counts(("replay", c["x"], c["ts"], c["link"]))
        cases = [m] if m is not None else []
    else:
        r = _record(("replay", c["x"], c["t"], c["link"]))
        if "error" in r:
            ctx.violation("returns", c, {"raised": r["error"]})
            return
        cases = [_strip(r)]
    rej = ctx.trace("Trace_Clustering", cases)
    for cid, vs in rej.items():
        ctx.violation(vs[0][0], c, {"verdict": vs[0]})
