"""C11 - 1-D linkage clustering follows its stated threshold rule.
M: Clustering.tla - one implementation-shaped machine per linkage (previous x / anchor / exact centroid + size /
   window start) checked against the declarative NewCluster definition (RuleHolds, StateAgrees, EqualsDefinition,
   JudgeAccepts, MonotoneInT); negative instances `>` for `>=`, stale anchor, window off by one must violate RuleHolds.
G: the same module with Emit=TRUE enumerates every strictly increasing integer layout x every threshold j/d x 4
   linkages; expected labels (both label vectors when a centroid tie is ambiguous) are replayed into the code.
T: random float layouts: decision tables from exact Fraction arithmetic on the float x values and the labels the
   code returned, judged by Trace_Clustering (TableClause / MonoClause); cluster counts of single / complete
   linkage per layout for increasing t (both for the grid layouts of G and for the float layouts)."""
from fractions import Fraction as Fr

import numpy as np

from harness import par

LINKS = ("single", "complete", "centroid", "average")
NEAR_REL = 1e-12
MERGE, SPLIT, NEAR = 1, 2, 3


def _fn(link):
    import kneeliverse.clustering as cl
    return {"single": cl.single_linkage, "complete": cl.complete_linkage,
            "centroid": cl.centroid_linkage, "average": cl.average_linkage}[link]


def _heights(n):
    return (np.arange(n) * 7 % 5).astype(float)


def _call(link, x, t, dtype=float):
    """-> (labels list, None) or (None, repr of the exception)."""
    if dtype is np.int64:          # built from Python ints: values above 2^53 must not pass through binary64
        P = np.column_stack([np.array([int(v) for v in x], dtype=np.int64), np.asarray(_heights(len(x))).astype(np.int64)])
    else:
        x = np.asarray(x, float)
        P = np.column_stack([x, _heights(len(x))]).astype(dtype)
    try:
        r = _fn(link)(P, t)
        return [int(v) for v in np.asarray(r).tolist()], None
    except Exception as ex:                       # an exception of the code under test is an observation
        return None, repr(ex)[:200]


def _shape_clause(got, n):
    if len(got) != n:
        return "one-label-per-point"
    if got[0] != 0:
        return "labels-start-at-0"
    if any(got[k] - got[k - 1] not in (0, 1) for k in range(1, n)):
        return "contiguous"
    return None


# ------------------------------------------------------------------ binding G
def _replay_group(g):
    """One (layout, t, linkage) with the allowed label vectors -> (mismatches, labels on the plain layout)."""
    bad = []
    x = g["x"]
    t = g["tnum"] / g["tden"]
    first = None
    # the rule is invariant under x -> a*x + b; both variants are exact in binary64 (dyadic a, small integers)
    # ... and the same integer layout stored as an int64 array (the property quantifies over arrays of points)
    variants = [("grid", [float(v) for v in x]), ("affine", [0.25 * v + 100.0 for v in x]), ("int64", [int(v) for v in x]),
                ("tiny", [v * 2.0 ** -40 for v in x])]      # the whole layout within 1e-11 (exact scaling): the rule is scale invariant
    if g["link"] in ("single", "complete"):
        # integer abscissae beyond 2^53 (nanosecond timestamps): gaps and range are exact in int64, not in binary64
        variants.append(("int64-big", [int(v) + 2 ** 60 for v in x]))
    for name, xv in variants:
        got, err = _call(g["link"], xv, t, np.int64 if name.startswith("int64") else float)
        if first is None:
            first = got
        if err is not None:
            bad.append(("returns", {"variant": name, "raised": err}))
            continue
        cl = _shape_clause(got, len(x))
        if cl is None and got not in g["allowed"]:
            cl = "rule(%s)" % g["link"]
        if cl is not None:
            bad.append((cl, {"variant": name, "got": got, "allowed": g["allowed"], "t": "%d/%d" % (g["tnum"], g["tden"])}))
    return bad, first


def _group(beh):
    groups = {}
    for b in beh:
        k = (tuple(b["x"]), b["tnum"], b["tden"], b["link"])
        g = groups.setdefault(k, {"x": b["x"], "tnum": b["tnum"], "tden": b["tden"], "link": b["link"],
                                  "allowed": [], "tie": False, "amb": False})
        if b["labels"] not in g["allowed"]:
            g["allowed"].append(b["labels"])
        g["tie"] = g["tie"] or b["tie"]
        g["amb"] = g["amb"] or b["amb"]
    return list(groups.values())


# ------------------------------------------------------------------ binding T
def _link_dist(xf, link, s, k):
    """Exact linkage distance of point k to the cluster s..k-1 (0-based), as the property states it."""
    if link == "single":
        return xf[k] - xf[k - 1]
    if link == "complete":
        return xf[k] - xf[s]
    m = k - s
    if link == "centroid":
        return abs(xf[k] - sum(xf[s:k]) / m)
    return sum(abs(xf[k] - v) for v in xf[s:k]) / m


def _table(x, link, t):
    """tab[s][k] (0-based here, rows/cols of length n): decision for a cluster starting at s and point k > s."""
    xf = [Fr(v) for v in x]
    n = len(xf)
    L = xf[-1] - xf[0]
    tt = Fr(t)
    tol = Fr(NEAR_REL) * (tt + max(abs(v) for v in xf) / L)
    tab = [[0] * n for _ in range(n)]
    for s in range(n):
        ks = range(s + 1, n)
        for k in ks:
            if link == "single" and s > 0:
                tab[s][k] = tab[0][k]
                continue
            r = _link_dist(xf, link, s, k) / L
            tab[s][k] = NEAR if abs(r - tt) <= tol else (SPLIT if r >= tt else MERGE)
    return tab


def _record(item):
    cid, x, t, link = item
    got, err = _call(link, x, t)
    if err is not None:
        return {"id": cid, "error": err}
    cl = _shape_clause(got, len(x))
    tab = _table(x, link, t)
    # non-trivial: some cluster has >= 2 members and no decision on the walked path was within noise
    multi = cl is None and any(got[k] == got[k - 1] for k in range(1, len(got)))
    near = any(v == NEAR for row in tab for v in row)
    return {"id": cid, "kind": "rule", "link": link, "n": len(x), "labels": got, "tab": tab,
            "_nontrivial": bool(multi), "_near": bool(near)}


def _layouts(ctx):
    rng = ctx.rng
    out = []
    m = 30 if ctx.quick else 240
    for _ in range(m):
        n = rng.randint(2, 16)
        out.append(sorted(rng.uniform(0.0, 100.0) for _ in range(n)))
    for _ in range(m):                                # blobs: many multi-member clusters
        n = rng.randint(3, 16)
        cs = [rng.uniform(-50.0, 50.0) for _ in range(rng.randint(1, 4))]
        out.append(sorted(rng.choice(cs) + rng.gauss(0.0, 1.5) for _ in range(n)))
    for _ in range(m):                                # growing gaps
        n = rng.randint(3, 14)
        x, g = [rng.uniform(0, 5)], rng.uniform(0.1, 1.0)
        for _ in range(n - 1):
            x.append(x[-1] + g)
            g *= rng.uniform(1.0, 1.8)
        out.append(x)
    for n in ([60, 120] if ctx.quick else [120, 300, 300]):     # long layouts (size-dependent code paths)
        cs = [rng.uniform(0.0, 1000.0) for _ in range(rng.randint(3, 12))]
        out.append(sorted(rng.choice(cs) + rng.gauss(0.0, 8.0) for _ in range(n)))
    for _ in range(m):                                # integer-valued floats: exact ties become "near"
        n = rng.randint(2, 12)
        out.append([float(v) for v in sorted(rng.sample(range(0, 33), n))])
    for _ in range(max(4, m // 4)):                   # a tight group and a far outlier: normalised distances around 1e-7
        n = rng.randint(3, 8)
        out.append([float(v) for v in sorted(rng.sample(range(0, 12), n))] + [float(rng.choice([10 ** 7, 3 * 10 ** 7, 2 ** 24]))])
    return [x for x in out if all(x[j] < x[j + 1] for j in range(len(x) - 1)) and x[-1] - x[0] >= 1.0]


def _thresholds(rng, x):
    ts = rng.sample([0.01, 0.05, 0.1, 0.125, 0.2, 0.25, 0.3, 0.5, 0.75, 1.0], 3)
    j = rng.randrange(1, len(x))
    ts.append((x[j] - x[j - 1]) / (x[-1] - x[0]))      # harvested: an observed normalised gap
    if rng.random() < 0.3:
        ts.append(rng.choice([1.5, 3.0, 50.0]))        # t > 1 is a valid threshold: normalised distances never reach it
    if x[-1] - x[0] >= 10 ** 6:
        ts += [5e-8, 2.5e-7]                            # tiny thresholds are valid too (t > 0)
    return sorted(set(t for t in ts if t > 0))


STATIC_RULE = {"kind": "rule", "link": "complete", "n": 5, "labels": [0, 0, 1, 1, 2],     # x = 0..4, t = 1/2
               "tab": [[0 if k <= s else (SPLIT if k - s >= 2 else MERGE) for k in range(5)] for s in range(5)]}
STATIC_MONO = {"kind": "mono", "counts": [4, 3, 3, 1]}


def _selftests():
    return [(STATIC_RULE, "ok"), (STATIC_MONO, "ok"),
            (dict(STATIC_RULE, labels=[1, 1, 2, 2, 3]), "labels-start-at-0"),
            (dict(STATIC_RULE, labels=[0, 0, 2, 2, 3]), "contiguous"),
            (dict(STATIC_RULE, labels=[0, 0, 1, 2, 3]), "rule(complete)"),       # anchor not moved on the split
            (dict(STATIC_RULE, labels=[0, 0, 0, 1, 1]), "rule(complete)"),       # tie taken as merge (`>`)
            (dict(STATIC_RULE, labels=[0, 0, 1, 1]), "one-label-per-point"),
            (dict(STATIC_MONO, counts=[4, 2, 3, 1]), "monotone-in-t")]


def _mono_counts(item):
    cid, x, ts, link = item
    counts = []
    for t in ts:
        got, err = _call(link, x, t)
        if err is not None or not got:
            return None
        counts.append(got[-1] + 1)
    return {"id": cid, "kind": "mono", "counts": counts}


def _strip(c):
    return {k: v for k, v in c.items() if not k.startswith("_")}


# ------------------------------------------------------------------ scale family (binding T, Trace_ClusteringScale)
# Production-size layouts (257 .. 1.1 * 10^5 strictly increasing abscissae; up to n clusters, clusters of up to ~n
# members).  The dense tab[s][k] of _table is O(n^2); here the oracle is evaluated only for the index pairs the result
# itself mentions - (start of the cluster the code put point k-1 in, k) for k = 1..n-1 - in exact integer arithmetic
# (floats are dyadic rationals; prefix sums make every centroid / average decision O(1)), merged with the label step
# into one small code per point and run-length encoded.  TLC walks the encoded sequence (ScaleClause).
S_EPS15 = 10 ** 15


def _sx(shape, n, rs, par):
    """Deterministic builder -> strictly increasing float64 abscissae (RandomState: a frozen stream, so a replay
    file only has to name shape / n / rs / par)."""
    r = np.random.RandomState((rs * 7919 + n) % (2 ** 31 - 1))
    if shape == "even":                              # a + h k, exact in binary64
        return par["a"] + par["h"] * np.arange(n, dtype=float)
    if shape == "randgaps":
        return par.get("a", 0.0) + np.cumsum(r.uniform(0.5, 1.5, n))
    if shape == "groups":                            # tight groups (sizes 1..g or exactly g) separated by wider gaps
        g, mode = par["g"], par["mode"]
        start = np.zeros(n, dtype=bool)
        if par.get("fixed"):
            start[par.get("lead", 0)::g] = True
        else:
            sizes = r.randint(1, g + 1, n)
            start[np.cumsum(sizes)[:-1][np.cumsum(sizes)[:-1] < n]] = True
        start[0] = True
        if mode == "dyadic":
            intra, inter = np.full(n, 0.25), np.full(n, 1.75)
        elif mode == "int":
            intra, inter = np.full(n, 1.0), np.full(n, 7.0)
        else:
            intra, inter = r.uniform(0.1, 0.3, n), r.uniform(1.5, 2.5, n)
        gaps = np.where(start, inter, intra)
        gaps[0] = 0.0
        return par.get("a", 0.0) + np.cumsum(gaps)
    if shape == "geometric":                         # gaps grow by e^c over the layout: long clusters first, singletons last
        k = np.arange(n, dtype=float)
        return np.cumsum(np.exp(par["c"] * k / n) * r.uniform(0.8, 1.2, n))
    if shape == "blobs":                             # K dense blobs of a few thousand points, far apart
        K = par["K"]
        w = r.uniform(0.5, 1.5, K)
        sizes = np.maximum(1, np.floor(w / w.sum() * n).astype(int))
        sizes[-1] += n - sizes.sum()
        if sizes[-1] < 1:
            sizes = np.full(K, n // K); sizes[-1] += n - sizes.sum()
        gaps = r.uniform(0.5, 1.5, n)
        far = 1.5 * sizes.max()
        firsts = np.cumsum(sizes)[:-1]
        gaps[firsts] = r.uniform(2.0, 3.0, len(firsts)) * far
        gaps[0] = 0.0
        return np.cumsum(gaps)
    raise ValueError(shape)


def _s_valid(x):
    return len(x) >= 2 and bool(np.all(np.isfinite(x))) and bool(np.all(np.diff(x) > 0))


def _exact_ints(x, as_int):
    """x[k] = X[k] / D exactly (D a power of two; Python ints)."""
    if as_int:
        return [int(v) for v in x]
    rat = [float(v).as_integer_ratio() for v in x]
    D = max(d for _, d in rat)
    return [p * (D // d) for p, d in rat]


def _path_codes(X, t, link, labels):
    """code (4 * step + decision) of the points 1..n-1 along the path the labels take, and the number of near
    decisions.  decision: is dist / range >= t for the cluster s..k-1 (s = start of the run of equal labels that
    contains k-1)?  near when |dist/range - t| <= rel * (t + max|x|/range), rel = 1e-12 for single / complete (as
    _table) and 1e-12 + 2e-15 * m for centroid / average with m members (the code's running centroid is updated m
    times, its sum has m terms: about 8 m eps)."""
    n = len(X)
    tq = Fr(t)
    tn, td = tq.numerator, tq.denominator
    Ls = X[-1] - X[0]
    B = tn * Ls + max(abs(X[0]), abs(X[-1])) * td
    mean = link in ("centroid", "average")
    P = None
    if mean:
        P = [0] * (n + 1)
        acc = 0
        for k, v in enumerate(X):
            P[k] = acc
            acc += v
        P[n] = acc
    tL = tn * Ls
    b1 = 1000 * B
    codes = [0] * (n - 1)
    near = 0
    s = 0
    for k in range(1, n):
        if mean:
            m = k - s
            # centroid: |x_k - mean(members)|; average: mean |x_k - member| - the same number for increasing x
            A = abs(m * X[k] - (P[k] - P[s])) * td - tL * m
            lim = (1000 + 2 * m) * m * B
        else:
            A = (X[k] - (X[k - 1] if link == "single" else X[s])) * td - tL
            lim = b1
        if abs(A) * S_EPS15 <= lim:
            dec = NEAR
            near += 1
        else:
            dec = SPLIT if A > 0 else MERGE
        d = labels[k] - labels[k - 1]
        codes[k - 1] = (4 * (0 if d == 0 else (1 if d == 1 else 2))) + dec
        if d != 0:
            s = k
    return codes, near


def _encode(codes):
    """Run-length encoding of the per-point codes: ({"codes", "ends"} with 1-based last points of the runs), or the
    plain code list when that is shorter (every run of length 1)."""
    c = np.asarray(codes, dtype=np.int64)
    cut = np.nonzero(np.diff(c))[0]                  # run r ends at code index cut[r]
    if 4 * (len(cut) + 1) >= len(c):
        return {"codes": [int(v) for v in c]}
    ends = np.append(cut, len(c) - 1) + 2            # code index j is point j + 2 (1-based)
    return {"codes": [int(v) for v in c[np.append(cut, len(c) - 1)]], "ends": [int(v) for v in ends]}


def _scale_call(link, x, t, as_int):
    """The library call under the back-edge budget (quadratic in n, DESIGN 3.1) and the CPU watchdog.
    -> (labels, None) | (None, (clause, detail))"""
    from harness import monitor
    n = len(x)
    if as_int:
        P = np.column_stack([np.asarray(x).astype(np.int64), _heights(n).astype(np.int64)])
    else:
        P = np.ascontiguousarray(np.column_stack([np.asarray(x, float), _heights(n)]))
    out, v, _ = monitor.call(_fn(link), (P, t), budget=monitor.quad(n, 8), wall=120 + int(n * n / 2e7))
    if out != "returned":
        return None, ("terminates" if out in ("budget", "watchdog") else "returns", {"outcome": out, "error": v})
    try:
        return [int(q) for q in np.asarray(v).tolist()], None
    except Exception as ex:
        return None, ("returns", {"outcome": "unusable result", "error": repr(ex)[:200]})


def _clip(v):
    return max(-2 ** 30, min(2 ** 30, int(v)))


def _scale_record(item):
    cid, lay, t, link = item
    x = _sx(lay["shape"], lay["n"], lay["rs"], lay["par"])
    as_int = lay["dtype"] == "int64"
    n = len(x)
    got, err = _scale_call(link, x, t, as_int)
    if err is not None:
        return {"id": cid, "error": err}
    rec = {"id": cid, "kind": "srule", "link": link, "n": n, "len": len(got), "first": _clip(got[0]) if got else -1,
           "codes": [], "_near": 0, "_nontrivial": False, "_clusters": 0, "_maxsize": 0}
    if len(got) != n:
        return rec
    codes, near = _path_codes(_exact_ints(x, as_int), t, link, got)
    rec.update(_encode(codes))
    lab = np.asarray(got, dtype=np.int64)
    cuts = np.nonzero(np.diff(lab))[0]
    sizes = np.diff(np.concatenate([[-1], cuts, [n - 1]]))
    rec["_near"] = near
    rec["_clusters"] = int(len(sizes))
    rec["_maxsize"] = int(sizes.max())
    # non-trivial: both kinds of decision were taken, or there are more clusters / members than any small input has
    rec["_nontrivial"] = bool(len(sizes) >= 2 and (sizes.max() >= 2 or len(sizes) > 1000))
    return rec


def _scale_mono(item):
    cid, lay, ts, link = item
    x = _sx(lay["shape"], lay["n"], lay["rs"], lay["par"])
    counts = []
    for t in ts:
        got, err = _scale_call(link, x, t, lay["dtype"] == "int64")
        if err is not None or not got:
            return {"id": cid, "error": err or ("returns", {"outcome": "empty"})}
        counts.append(_clip(got[-1]) + 1)
    return {"id": cid, "kind": "mono", "counts": counts}


def _scale_worker(item):
    return _scale_mono(item[1:]) if item[0] == "mono" else _scale_record(item[1:])


def _scale_layouts(ctx):
    """-> list of layouts {shape, n, rs, par, dtype, ts: {link: [t...]}, mono: [t...]} (thresholds derived from the
    layout: tiny = every point its own cluster; mid = between the tight and the wide gaps; frac = clusters that span
    that fraction of the range)."""
    from harness import scale
    rng = ctx.rng
    sizes = scale.sizes(ctx, lo=250, hi=110000, k_quick=3, k_thorough=8)
    nmax = sizes[-1]
    out = []

    def lay(shape, n, par, dtype="float"):
        d = {"shape": shape, "n": n, "rs": rng.randrange(1, 10 ** 6), "par": par, "dtype": dtype, "ts": {}, "mono": []}
        x = _sx(shape, n, d["rs"], par)
        assert _s_valid(x), (shape, n, par)
        if dtype == "int64":
            assert np.all(x == np.round(x))
        out.append(d)
        return d, x

    def flat(n, big, kind=None):
        """even or random gaps; tiny threshold (n clusters) and long clusters (a fraction of the layout each)"""
        if (kind or rng.choice(["even", "randgaps"])) == "even":
            h = rng.choice([1.0, 0.25, 3.0])
            a = rng.choice([0.0, 100.0, -(n // 2) * h, 1.6e9])
            dt = "int64" if (h != 0.25 and rng.random() < 0.5) else "float"
            d, x = lay("even", n, {"a": a, "h": h}, dt)
        else:
            d, x = lay("randgaps", n, {"a": rng.choice([0.0, -250.0, 1.0e6])})
        L = float(x[-1] - x[0])
        gaps = np.diff(x)
        tiny = 0.25 * float(gaps.min()) / L
        # average linkage does sum(cluster sizes) ~ frac * n^2 element operations: about 10^9 (quick) / 3 * 10^9 of them
        w = rng.uniform(5.0e8, 1.2e9) if ctx.quick else rng.uniform(2.0e9, 4.0e9)
        fa = min(0.45, w / float(n) ** 2) if not big else rng.uniform(0.45, 0.49)
        fc = rng.uniform(0.2, 0.47)
        for link in LINKS:
            d["ts"][link] = [tiny]
        d["ts"]["complete"].append(fc)                # clusters of fc * n points
        d["ts"]["centroid"].append(fc)                # clusters of 2 fc * n points
        d["ts"]["average"].append(fa)
        if d["shape"] == "randgaps":
            d["ts"]["single"].append(float(np.median(gaps)) / L)     # half of the gaps split (one harvested near-tie)
        if not ctx.quick:
            f2 = rng.uniform(30.0, 3000.0) / n        # clusters of 30 .. 6000 members
            for link in ("complete", "centroid", "average"):
                d["ts"][link].append(f2)
        d["mono"] = sorted({tiny, 3.0 / n, fa, fc, 1.0})
        return d

    def groups(n, gs, extra=False, mode=None, dtype=None):
        g = rng.choice(gs)
        mode = mode or rng.choice(["dyadic", "int", "float"])
        par = {"g": g, "mode": mode, "a": rng.choice([0.0, 1000.0, -3.0 * n, 1.6e9])}
        if rng.random() < 0.35:
            par.update({"fixed": True, "lead": rng.randrange(0, g)})
        d, x = lay("groups", n, par, dtype or ("int64" if mode == "int" and rng.random() < 0.6 else "float"))
        L = float(x[-1] - x[0])
        mid = {"dyadic": 1.1, "int": 4.3, "float": 0.9}[mode] / L      # between the tight and the wide gaps, off the lattice of distances
        wide = mid * rng.uniform(2.0, 9.0)            # several groups per cluster for complete / centroid / average
        for link in LINKS:
            d["ts"][link] = [mid] + ([wide] if extra else [])
        d["mono"] = sorted({0.02 / L, mid, wide, 4.1 * wide, 40.0 * wide})
        return d

    def geometric(n):
        d, x = lay("geometric", n, {"c": rng.uniform(5.0, 12.0)})
        ts = [rng.choice([0.01, 0.003]), rng.uniform(1.0, 30.0) / n]
        for link in LINKS:
            d["ts"][link] = list(ts) if not ctx.quick else [ts[LINKS.index(link) % 2]]
        d["mono"] = sorted(set(ts + [1e-7, 0.05, 0.4]))
        return d

    def blobs(n):
        K = rng.randint(max(4, int(n * n / 1.2e9) + 1), max(6, int(n * n / 1.2e9) + 16))
        K = min(K, n // 3)
        d, x = lay("blobs", n, {"K": K})
        L = float(x[-1] - x[0])
        gaps = np.diff(x)
        far = np.nonzero(gaps > 1.5)[0]
        b = np.concatenate([[0], far + 1, [n]])
        span = max(float(x[b[j + 1] - 1] - x[b[j]]) for j in range(len(b) - 1))
        whole = 1.3 * span / L                       # every blob is one cluster for all four linkages
        inner = rng.uniform(20.0, 200.0) / L         # complete / centroid / average cut the blobs into short runs
        for link in LINKS:
            d["ts"][link] = [whole] if ctx.quick else [whole, inner]
        d["mono"] = sorted({whole, inner, 0.1 / L, 1.6 / L, 1.0})
        return d

    if ctx.quick:
        flat(nmax, False)                             # > 65536 singleton clusters; clusters of 10^4 .. 9 * 10^4 members
        groups(nmax, [2, 3])                          # > 32768 clusters of 1..3 members
        blobs(nmax)
        geometric(sizes[1])
        groups(sizes[1], [3, 12, 40], mode="int", dtype="int64")
        groups(sizes[0], [5, 12], extra=True)
        flat(sizes[0], False)
        flat(rng.randint(37000, 46000), True)         # average linkage: one cluster beyond 32768 members
    else:
        for n in sizes:
            flat(n, False, "even")
            flat(n, False, "randgaps")
            groups(n, [2, 3], True)
            groups(n, [5, 12, 40], True)
            geometric(n)
            blobs(n)
        for _ in range(2):
            flat(rng.randint(37000, 46000), True)
        flat(rng.randint(70000, 80000), True)         # average linkage: one cluster beyond 65536 members
        groups(nmax, [2], False)
        groups(nmax, [2, 3], True, mode="int", dtype="int64")
    return sizes, out


S_GOOD = {"kind": "srule", "link": "complete", "n": 9, "len": 9, "first": 0,      # labels 0 0 0 1 1 1 2 2 2
          "codes": [1, 6, 1, 6, 1], "ends": [3, 4, 6, 7, 9]}
S_RAW = {"kind": "srule", "link": "single", "n": 5, "len": 5, "first": 0, "codes": [1, 6, 7, 3]}


def _scale_selftests():
    return [(S_GOOD, "ok"), (S_RAW, "ok"), (STATIC_MONO, "ok"),
            (dict(S_GOOD, first=-32768), "labels-start-at-0"),
            (dict(S_GOOD, len=8), "one-label-per-point"),
            (dict(S_GOOD, codes=[1, 6, 1, 10, 1]), "contiguous"),               # a label step of -65535 (or 2, or -1)
            (dict(S_GOOD, codes=[1, 6, 1, 2, 1]), "rule(complete)"),            # a sure split that was merged
            (dict(S_GOOD, codes=[1, 6, 5, 6, 1]), "rule(complete)"),            # a sure merge run that was split
            (dict(S_RAW, codes=[1, 6, 7, 5]), "rule(single)"),
            (dict(S_GOOD, ends=[3, 4, 6, 7, 8]), "malformed-case"),             # the encoding must cover 2..n
            (dict(STATIC_MONO, counts=[4, 2, 3, 1]), "monotone-in-t")]


def _scale_detail(lay, t, link, verdict):
    """For a reader of the replay file: the labels around the offending point (one more call, violations only)."""
    d = {"verdict": verdict, "n": lay["n"]}
    try:
        if len(verdict) >= 2 and isinstance(verdict[1], int) and verdict[0] not in ("one-label-per-point", "labels-start-at-0"):
            x = _sx(lay["shape"], lay["n"], lay["rs"], lay["par"])
            got, _ = _scale_call(link, x, t, lay["dtype"] == "int64")
            k = verdict[1]
            lo = max(0, k - 3)
            d.update({"point": k, "labels[%d:%d]" % (lo, k + 3): got[lo:k + 3], "x[%d:%d]" % (lo, k + 3): [float(v) for v in x[lo:k + 3]],
                      "range": float(x[-1] - x[0]), "last_label": got[-1]})
    except Exception:
        pass
    return d


def _scale_family(ctx):
    import time
    t0 = time.time()
    sizes, lays = _scale_layouts(ctx)
    items, meta = [], {}
    for li, lay in enumerate(lays):
        ref = {k: lay[k] for k in ("shape", "n", "rs", "par", "dtype")}
        for link in LINKS:
            for ti, t in enumerate(lay["ts"][link]):
                cid = "s%d-%s-%d" % (li, link, ti)
                # cost estimate (for the order of dispatch only): average linkage is n * m
                cost = lay["n"] * (lay["n"] * min(1.0, 2 * t) if link == "average" else 1.0)
                items.append((cost, ("rule", cid, ref, t, link)))
                meta[cid] = {"kind": "scale", "layout": ref, "t": t, "link": link}
        for link in ("single", "complete"):
            cid = "sm%d-%s" % (li, link)
            items.append((5.0 * lay["n"], ("mono", cid, ref, lay["mono"], link)))
            meta[cid] = {"kind": "scale-mono", "layout": ref, "ts": lay["mono"], "link": link}
    items = [it for _, it in sorted(items, key=lambda p: -p[0])]
    res = par.pmap(_scale_worker, items, chunksize=1)
    cases = []
    st = {"sizes": sizes, "layouts": len(lays), "rule_cases": 0, "mono_cases": 0, "near_decisions": 0, "max_clusters": 0,
          "max_cluster_size": 0, "cases_with_more_than_32768_clusters": 0, "cases_with_more_than_65536_clusters": 0,
          "cases_with_a_cluster_of_more_than_4096_points": 0, "cases_with_a_cluster_of_more_than_32768_points": 0,
          "by_shape": {}}
    for r in res:
        m = meta[r["id"]]
        if "error" in r:
            ctx.violation(r["error"][0], m, r["error"][1])
            continue
        cases.append(r)
        if r["kind"] == "mono":
            st["mono_cases"] += 1
            ctx.count(("S-mono", m["layout"], m["link"]), len(set(r["counts"])) > 1)
            continue
        st["rule_cases"] += 1
        st["near_decisions"] += r["_near"]
        st["max_clusters"] = max(st["max_clusters"], r["_clusters"])
        st["max_cluster_size"] = max(st["max_cluster_size"], r["_maxsize"])
        st["cases_with_more_than_32768_clusters"] += r["_clusters"] > 32768
        st["cases_with_more_than_65536_clusters"] += r["_clusters"] > 65536
        st["cases_with_a_cluster_of_more_than_4096_points"] += r["_maxsize"] > 4096
        st["cases_with_a_cluster_of_more_than_32768_points"] += r["_maxsize"] > 32768
        sh = "%s/%s" % (m["layout"]["shape"], m["layout"]["dtype"])
        st["by_shape"][sh] = st["by_shape"].get(sh, 0) + 1
        # a case with a near decision stays judged (near pins nothing at that point only) but is not counted as non-trivial
        ctx.count(("S", m["layout"], m["t"], m["link"]), r["_nontrivial"] and r["_near"] == 0)
    # the JSON that reaches one TLC run stays modest: chunks of at most ~2.5 MB
    send = [_strip(c) for c in cases]
    weight = [len(c.get("codes", ())) * 3 + len(c.get("ends", ())) * 7 + 200 for c in send]
    st["json_bytes_estimate"] = int(sum(weight))
    nch = max(1, -(-int(sum(weight)) // 2500000))
    order = sorted(range(len(send)), key=lambda j: -weight[j])
    send = [send[j] for c in range(nch) for j in order[c::nch]]          # contiguous slices of similar weight
    st["tlc_runs"] = nch
    rej = ctx.trace("Trace_ClusteringScale", send, selftest=_scale_selftests(), chunk=max(1, -(-(len(send) + 11) // nch)))
    for cid, vs in rej.items():
        m = meta[cid]
        if m["kind"] == "scale":
            ctx.violation(vs[0][0], m, _scale_detail(m["layout"], m["t"], m["link"], vs[0]))
        else:
            ctx.violation(vs[0][0], m, {"verdict": vs[0]})
    st["wall_s"] = round(time.time() - t0, 1)
    ctx.note("scale family: all clauses of the property are judged at production size (one-label-per-point, labels-start-at-0, "
             "contiguous, rule(<linkage>) along the returned path, monotone-in-t for single / complete); an exact tie "
             "distance == t is only exercised on the small grid layouts (G): on float layouts it is 'near' and pins nothing")
    ctx.extra["scale"] = st
    ex = next((c for c in cases if c["kind"] == "srule" and c["_nontrivial"] and "ends" in c and 8 <= len(c["ends"]) <= 400), None)
    if ex is not None:
        ctx.sample({"binding": "T-scale", "call": meta[ex["id"]], "case": _strip(ex),
                    "clusters": ex["_clusters"], "largest_cluster": ex["_maxsize"]}, limit=6)


def run(ctx):
    from harness import growth
    growth.safe(ctx, growth.clustering_steps)
    ctx.rule = ("G: every strictly increasing integer layout in 0..G with 2..NMax points x every t = j/d x 4 linkages, "
                "generated by TLC from Clustering.tla (checked there against the declarative NewCluster rule) and replayed "
                "into clustering.* on the layout and on an exact affine image of it; T: random float layouts (uniform, "
                "blobs, growing gaps, integer-valued) x 4 thresholds (one harvested from an observed gap) x 4 linkages "
                "judged by Trace_Clustering on Fraction decision tables; cluster counts of single/complete per layout for "
                "increasing t.  non-trivial: at least one multi-member cluster or an exact tie distance == t (float layouts: a "
                "multi-member cluster and no decision within noise of t; count sequences: the count actually changes).  "
                "scale: production-size layouts (sizes from harness/scale.py just above 256 .. 10^5, always one beyond 10^5; "
                "even / random-gap / tight-group / geometric / blob layouts, float64 and int64, offsets up to 1.6e9) x 4 linkages "
                "x thresholds from 'every point its own cluster' (more than 65536 clusters) to clusters of up to 0.98 n members, "
                "called under a quadratic back-edge budget; the decision table is evaluated exactly only along the path the "
                "returned labels take, run-length encoded and judged by Trace_ClusteringScale (same clauses as TableClause), "
                "cluster counts of single / complete for increasing t by MonoClause (scale non-trivial: at least two clusters, a "
                "multi-member cluster or more than 1000 clusters, and no near decision on the path)")
    ctx.assumptions += [
        "grid domain: one correctly rounded division of small integers compared with fl(p/q) decides like the rationals",
        "centroid linkage with current cluster size >= 2 and distance/range == t exactly is ambiguous: both label vectors allowed",
        "float layouts: a decision whose exact ratio is within 1e-12 * (t + max|x|/range) of t is 'near': either side allowed",
        "scale family: centroid / average decisions of a cluster with m members are 'near' within (1e-12 + 2e-15 m) * (t + max|x|/range) "
        "(m incremental centroid updates / an m-term sum: about 8 m eps); mean |x_k - member| equals |x_k - centroid| for increasing x",
        "TLC, SANY, CommunityModules, CPython fractions, NumPy are trusted"]
    acts = ("SingleStep", "CompleteStep", "CentroidMerge", "CentroidSplit", "AverageStep", "Return")
    # ---- M
    for v in ("strict", "stale", "window"):
        ctx.mc("Clustering", "MC_Clustering_" + v, expect="RuleHolds")
    ctx.mc("Clustering", "MC_Clustering_small" if ctx.quick else "MC_Clustering", need_actions=acts)
    # every complete-linkage step of the machine is a ScanStep of CompleteMonoProof.tla, whose two-scan product is proved
    # monotone in the threshold for EVERY layout (TLAPS, CompleteMonoProof_proofs.tla); the stale-anchor variant is not
    ctx.mc("CompleteMonoRefines", "MC_CompleteMonoRefines", need_actions=("CompleteStep",))
    ctx.mc("CompleteMonoRefines", "MC_CompleteMonoRefines_neg", expect="IsScanStep")
    if not ctx.quick:
        from harness import proofs
        proofs.recheck(ctx, ["CompleteMonoProof_proofs"])
    # ---- G
    beh = ctx.gen("Clustering", "Gen_Clustering_quick" if ctx.quick else "Gen_Clustering_thorough", timeout=3000)
    ctx.exhaustive = True
    groups = _group(beh)
    res = par.pmap(_replay_group, groups)
    seen = {}
    by_layout = {}
    for g, (bad, got) in zip(groups, res):
        multi = any(any(l[k] == l[k - 1] for k in range(1, len(l))) for l in g["allowed"])
        ctx.count(("G", g["x"], g["tnum"], g["tden"], g["link"]), multi or g["tie"])
        for clause, detail in bad:
            seen[clause] = seen.get(clause, 0) + 1
            if seen[clause] <= 3:
                ctx.violation(clause, {"kind": "G", "group": g}, detail)
        if g["link"] in ("single", "complete"):
            by_layout.setdefault((tuple(g["x"]), g["link"]), []).append((Fr(g["tnum"], g["tden"]), g["tnum"], g["tden"]))
    ctx.extra["violating_groups_by_clause"] = dict(seen)
    ctx.extra["ambiguous_centroid_groups"] = sum(1 for g in groups if g["amb"])
    ctx.traces += len(groups)
    for pick in (lambda g: g["amb"] and len(g["allowed"]) > 1,
                 lambda g: g["link"] == "average" and g["tie"] and len(g["x"]) == 5):
        s = next((g for g in groups if pick(g)), None)
        if s is not None:
            ctx.sample({"binding": "G", "group": s})
    # ---- monotonicity of the code's cluster counts on the grid layouts
    mono_items, mono_meta = [], {}
    for (x, link), ts in by_layout.items():
        ts = sorted(set(ts))
        if len(ts) < 2:
            continue
        cid = "gm%d" % len(mono_items)
        tl = [[p, q] for _, p, q in ts]
        mono_items.append((cid, [float(v) for v in x], [p / q for p, q in tl], link))
        mono_meta[cid] = {"kind": "mono", "x": [float(v) for v in x], "ts": [p / q for p, q in tl], "link": link}
    # ---- T: float layouts
    items, meta = [], {}
    for li, x in enumerate(_layouts(ctx)):
        ts = _thresholds(ctx.rng, x)
        for link in LINKS:
            for ti, t in enumerate(ts):
                cid = "t%d-%s-%d" % (li, link, ti)
                items.append((cid, x, t, link))
                meta[cid] = {"kind": "T", "x": x, "t": t, "link": link}
            if link in ("single", "complete") and len(ts) >= 2:
                cid = "tm%d-%s" % (li, link)
                mono_items.append((cid, x, ts, link))
                mono_meta[cid] = {"kind": "mono", "x": x, "ts": ts, "link": link}
    rec = par.pmap(_record, items)
    cases = []
    for r in rec:
        if "error" in r:
            ctx.violation("returns", meta[r["id"]], {"raised": r["error"]})
            continue
        cases.append(r)
        ctx.count(("T", meta[r["id"]]["x"], meta[r["id"]]["t"], r["link"]), r["_nontrivial"] and not r["_near"])
    monos = [m for m in par.pmap(_mono_counts, mono_items) if m is not None]
    for m in monos:
        ctx.count(("mono", mono_meta[m["id"]]["x"], mono_meta[m["id"]]["link"]), len(set(m["counts"])) > 1)
    rej = ctx.trace("Trace_Clustering", [_strip(c) for c in cases] + monos, selftest=_selftests(), chunk=1500)
    meta.update(mono_meta)
    for cid, vs in rej.items():
        ctx.violation(vs[0][0], meta[cid], {"verdict": vs[0]})
    ctx.extra["float_cases_with_near_decisions"] = sum(1 for c in cases if c["_near"])
    ex = next((c for c in cases if c["_nontrivial"] and not c["_near"] and 5 <= c["n"] <= 7), None)
    if ex is not None:
        ctx.sample({"binding": "T", "call": meta[ex["id"]], "case": _strip(ex)})
    # ---- T at production size
    _scale_family(ctx)


def replay(ctx, obj):
    c = obj["case"]
    if c["kind"] == "G":
        bad, _ = _replay_group(c["group"])
        for clause, detail in bad:
            ctx.violation(clause, c, detail)
        return
    if c["kind"] in ("scale", "scale-mono"):
        lay = c["layout"]
        if not _s_valid(_sx(lay["shape"], lay["n"], lay["rs"], lay["par"])):
            raise ValueError("replay layout is outside the property's quantifier")
        r = _scale_mono(("replay", lay, c["ts"], c["link"])) if c["kind"] == "scale-mono" else _scale_record(("replay", lay, c["t"], c["link"]))
        if "error" in r:
            ctx.violation(r["error"][0], c, r["error"][1])
            return
        rej = ctx.trace("Trace_ClusteringScale", [_strip(r)])
        for cid, vs in rej.items():
            ctx.violation(vs[0][0], c, _scale_detail(lay, c["t"], c["link"], vs[0]) if c["kind"] == "scale" else {"verdict": vs[0]})
        return
    if c["kind"] == "mono":
        m = _mono_counts(("replay", c["x"], c["ts"], c["link"]))
        cases = [m] if m is not None else []
    else:
        r = _record(("replay", c["x"], c["t"], c["link"]))
        if "error" in r:
            ctx.violation("returns", c, {"raised": r["error"]})
            return
        cases = [_strip(r)]
    rej = ctx.trace("Trace_Clustering", cases)
    for cid, vs in rej.items():
        ctx.violation(vs[0][0], c, {"verdict": vs[0]})
