"""C09 - each single-knee detector returns the interior optimum of its stated criterion.
M: LRefine.tla - DFDT cutoff loop and the three L-method refinement rules terminate for every table of per-cutoff
   answers (n<=13); negative instance: the pinned Refinement.original rule without the cycle guard (TLC lasso).
T: curvature, Menger, DFDT (single pass and loop), L-method get_knee (Fit x Cost) and knee (Fit x Refinement x limit)
   with rank tables computed from the stated criteria, judged by Trace_Detectors.
T (scale): the same detectors and options on built curves of 10^3 .. 1.1*10^5 points (long multi-step staircases whose
   two-line error is not unimodal, kinks at block seams / beyond 2^15, smooth and textured decays, unit and ragged
   abscissae), with SPARSE tables (the returned index, optimisers, seam neighbours, local optima; the reachable cutoffs of
   the two refinement loops only), judged by Trace_DetectorsScale.
T (integer magnitude): every detector and option on integer curves with ordinates of 10^10 .. 10^14 over integer abscissae
   (steps 1 .. 10^7), each stored as int64 AND as its exact float64 twin; full tables from the float64 values with
   magnitude-relative noise bands, judged by Trace_Detectors."""
import math
import random

import numpy as np

from harness import curves, monitor, numeric, par, scale
from harness import enums


_WIDE = [False]     # set per recorded item: x-translated variants are judged with a wider noise band (see _record)


def _ranks(v):
    if _WIDE[0]:
        fin = [abs(float(a)) for a in v if not math.isnan(float(a)) and not math.isinf(float(a))]
        return numeric.ranks(v, rel=1e-6, ab=1e-7 * (max(fin) if fin else 1.0) + 1e-12)
    return numeric.ranks(v)


def _argset(v, sense):
    r = _ranks(v)
    ok = [x for x in r if x >= 0]
    if not ok:
        return list(range(len(v)))
    best = max(ok) if sense == "max" else min(ok)
    return [i for i, x in enumerate(r) if x == best or x < 0]


def _rss_endpoint(x, y):
    if x[0] == x[-1]:
        return float(np.sum((y - 0.0) ** 2))
    m = (y[0] - y[-1]) / (x[0] - x[-1])
    b = y[0] - m * x[0]
    return float(np.sum((y - (m * x + b)) ** 2))


def _rss_bestfit(x, y):
    xm, ym = x.mean(), y.mean()
    sxx = float(np.sum((x - xm) ** 2))
    if sxx == 0:
        return float(np.sum((y - ym) ** 2))
    m = float(np.sum((x - xm) * (y - ym))) / sxx
    b = ym - m * xm
    return float(np.sum((y - (m * x + b)) ** 2))


def _lerr(x, y, i, fit, cost):
    """the L-method criterion, computed independently of lmethod.compute_error: residual sums of squares of the two
    lines (through the end points of each part, or least squares) weighted by the parts' share of the x range;
    'rmse' form: w*sqrt(w*RSS) per part (the form the library documents), 'rss' form: w*RSS."""
    length = x[-1] - x[0]
    wl, wr = (x[i] - x[0]) / length, (x[-1] - x[i]) / length
    f = _rss_endpoint if fit == "pointfit" else _rss_bestfit
    rl, rr = max(f(x[:i + 1], y[:i + 1]), 0.0), max(f(x[i:], y[i:]), 0.0)
    if cost == "rmse":
        return wl * math.sqrt(rl * wl) + wr * math.sqrt(wr * rr)
    return rl * wl + rr * wr


def _record(item):
    import kneeliverse.curvature as cu
    import kneeliverse.dfdt as df
    import kneeliverse.menger as me
    import kneeliverse.lmethod as lm
    import uts.gradient as grad
    import uts.thresholding as th
    cid, P, what = item
    P = np.asarray(P, float)
    x, y = P[:, 0], P[:, 1]            # criteria are computed from the float64 values
    n = len(P)
    PC = P.astype(np.int64) if cid.startswith("i") else P      # what the detector is called with
    _WIDE[0] = cid.startswith("o")
    if cid.startswith("o"):
        # the same curve far to the right (2^20: abscissae stay exactly representable).  Every criterion is built from x
        # differences, so the optimiser set is the one of the untranslated curve (computed below from P); the detector's
        # own rounding grows with the offset, hence the wider noise band.  Exposes relative comparisons of abscissae.
        PC = P + np.array([float(2 ** 20), 0.0])
    xc, yc = PC[:, 0], PC[:, 1]
    out = []
    meta = {"points": P.tolist(), "what": what}
    B, W = 3000 * n + 20000, 30

    def base(kind, res, lo_ok=1, hi_ok=None):
        o, v, _ = res
        c = {"id": cid, "kind": kind, "n": n, "outcome": o, "result": -1, "lo_ok": lo_ok, "hi_ok": n - 2 if hi_ok is None else hi_ok}
        if o == "returned":
            if isinstance(v, tuple):
                v = v[0]
            c["result"] = int(v) if v is not None else -1
        else:
            meta["error"] = v
        return c

    if what == "curvature":
        c = base("argopt", monitor.call(cu.knee, (PC,), budget=B, wall=W))
        g1, g2 = grad.cfd(x, y), grad.csd(x, y)
        crit = np.absolute(g2) / ((1.0 + g1 ** 2.0) ** 1.5)
        r = [-1] + _ranks(crit[1:-1]) + [-1]
        c.update(det="curvature", sense="max", lo=1, hi=n - 2, rank=r)
    elif what == "menger":
        c = base("argopt", monitor.call(me.knee, (PC,), budget=B, wall=W), lo_ok=0)
        crit = [0.0]
        for i in range(1, n - 1):
            f, g, h = P[i - 1], P[i], P[i + 1]
            cr = abs((g[0] - f[0]) * (h[1] - f[1]) - (h[0] - f[0]) * (g[1] - f[1]))
            den = math.dist(f, g) * math.dist(g, h) * math.dist(f, h)
            crit.append(2.0 * cr / den if den > 0 else float("nan"))
        crit.append(0.0)
        c.update(det="menger", sense="max", lo=0, hi=n - 1, rank=_ranks(crit))
    elif what == "dfdt_get":
        c = base("argopt", monitor.call(df.get_knee, (xc, yc), budget=B, wall=W))
        g = grad.cfd(x, y)
        d = np.absolute(g - th.isodata(g))
        c.update(det="dfdt.get_knee", sense="min", lo=1, hi=n - 2, rank=[-1] + _ranks(d[1:-1]) + [-1])
    elif what == "dfdt":
        c = base("dfdt", monitor.call(df.knee, (PC,), budget=B, wall=W))
        g = grad.cfd(x, y)
        G = []
        for cut in range(0, n):
            if n - cut > 2:
                gg = g[cut:]
                d = np.absolute(gg - th.isodata(gg))[1:-1]
                G.append([cut + 1 + i for i in _argset(d, "min")])
            else:
                G.append([])
        c["G"] = G
    elif what[0] == "lget":
        fit, cost = enums.pick(lm.Fit, what[1]), enums.pick(lm.Cost, what[2])
        c = base("argopt", monitor.call(lm.get_knee, (xc, yc, fit, cost), budget=B, wall=W), lo_ok=2, hi_ok=n - 3)
        length = x[-1] - x[0]
        E = [_lerr(x, y, i, what[1], what[2]) for i in range(2, n - 2)]
        lib = [float(lm.compute_error(x, y, i, length, fit, cost)[0]) for i in range(2, n - 2)]
        if not all(numeric.close(a, b, rel=1e-6, ab=1e-9 * (1.0 + max(abs(v) for v in E))) for a, b in zip(E, lib)):
            meta["drift"] = "lmethod.compute_error differs from the independent criterion: %s vs %s" % (lib[:4], E[:4])
        c.update(det="lmethod.get_knee(%s,%s)" % (what[1], what[2]), sense="min", lo=2, hi=n - 3,
                 rank=[-1, -1] + _ranks(E) + [-1, -1])
    else:  # ("lknee", fit, mode, limit)
        fit, mode, limit = enums.pick(lm.Fit, what[1]), enums.pick(lm.Refinement, what[2]), what[3]
        c = base("lknee", monitor.call(lm.knee, (PC, fit, mode, limit), budget=B, wall=W), lo_ok=1)
        A = []
        for cut in range(0, n + 1):
            xp, yp = x[0:cut + 1], y[0:cut + 1]
            if len(xp) < 5:
                A.append([])
                continue
            length = xp[-1] - xp[0]
            E = [_lerr(xp, yp, i, what[1], "rmse") for i in range(2, len(xp) - 2)]
            A.append([2 + i for i in _argset(E, "min")])
        c.update(A=A, mode=what[2], limit=limit)
    return c, meta


# ---------------------------------------------------------------------------------------------------------------- scale family
# Production-size curves.  A case is (id, spec, what): `spec` is a small dict from which _build() rebuilds the curve
# deterministically (replay files stay small), `what` is the detector + options exactly as in the small family, plus
# ("lknee_default",) = lmethod.knee(points) with the public defaults (judged as point fit / adjusted / limit 10).
_EPS = 2.0 ** -52
# fractional knots of long staircases whose length-weighted two-line error has a local minimum at the first step and
# its global minimum thousands of split points later (the shape of a miss-ratio curve with two working sets)
_STAIRS = {
    "two-steps": [(0, 1000), (0.133, 500), (0.417, 450), (0.583, 50), (1, 0)],
    "late-drop": [(0, 1000), (0.0375, 800), (0.375, 780), (0.4125, 100), (1, 90)],
    "plateaus": [(0, 1000), (0.167, 1000), (0.183, 600), (0.667, 600), (0.7, 0), (1, 0)],
}


def _rand_knots(rng):
    """a random multi-step staircase: gentle plateaus separated by 2..4 steep drops of random width and height"""
    segs = []
    for _ in range(rng.randrange(2, 5)):
        segs += [("p", rng.uniform(0.08, 0.35)), ("d", rng.uniform(0.01, 0.12))]
    segs.append(("p", rng.uniform(0.1, 0.4)))
    tot = sum(w for _, w in segs)
    f, level, knots = 0.0, 1000.0, [(0.0, 1000.0)]
    for kind, w in segs:
        f += w / tot
        level -= rng.uniform(0.0, 40.0) if kind == "p" else rng.uniform(100.0, 500.0)
        knots.append((round(f, 6), round(level, 3)))
    knots[-1] = (1.0, knots[-1][1])
    m = min(v for _, v in knots)
    return [[a, round(v - m, 3)] for a, v in knots]


def _build(spec):
    """spec -> (n, 2) float64, finite, strictly increasing x, y >= 0"""
    n, b = int(spec["n"]), spec["b"]
    if spec.get("x") == "ragged":               # uneven, exactly representable abscissae
        xs = np.concatenate([[0.0], np.cumsum(scale.tile([1.0, 2.0, 1.0, 3.0, 1.0, 1.0, 2.0], n - 1))])
    else:
        xs = np.arange(n, dtype=float)
    t = xs / xs[-1]
    i = np.arange(n, dtype=float)
    if b == "pl":
        y = np.interp(t, [k[0] for k in spec["knots"]], [k[1] for k in spec["knots"]])
        if spec.get("tex"):                      # no exactly straight segment: every prefix has a well-defined best split
            y = y + spec["tex"] * (1.0 + np.sin(53.0 * t))
    elif b == "exp":                             # smooth decay with a slow smooth texture (real-valued, no ties)
        y = 1000.0 * np.exp(-spec["a"] * t) + spec["amp"] * (1.0 + np.sin(spec["w"] * t))
    elif b == "hyper":
        y = 1000.0 / (1.0 + spec["a"] * t)
    elif b == "kink":
        # smooth convex decay, one sharp kink at index p (the unique curvature / Menger optimum) and weaker ones before it
        y = 1000.0 * (1.0 - i / n) ** 2
        for q, s in [(spec["p"], spec["s"])] + [(q, spec["s"] / 4.0) for q in spec["decoys"]]:
            y = y + (s / n) * np.maximum(0.0, q - i)
    elif b == "mrc":
        y = scale.mrc(n, random.Random(spec["seed"]), knees=spec["knees"])[:, 1]
    elif b == "stair":
        y = scale.staircase(n, spec["steps"], rng=random.Random(spec["seed"]), grow=spec["grow"], jitter=spec["jitter"])[:, 1]
    elif b == "convex":
        y = scale.convex_pl(n, spec["corners"])[:, 1]
    elif b == "valley":
        y = scale.valley(n, rng=random.Random(spec["seed"]))[:, 1]
    elif b == "elbow":
        y = scale.elbow(n, spec["corner"], spec["s1"], spec["s2"])[:, 1]
    elif b == "jline":
        y = scale.jitter_line(n, spec["a"], spec["b2"], spec["amp"], slope=-900.0 / n, top=1000.0)[:, 1]
    elif b == "spikes":
        y = scale.spikes(n, period=spec["period"])[:, 1]
    else:
        raise ValueError(b)
    fl = spec.get("flip", "")
    if "h" in fl:
        y = y[::-1]
    if "v" in fl:
        y = y.max() - y
    y = np.ascontiguousarray(y, dtype=float)
    P = np.ascontiguousarray(np.column_stack([xs, y - min(0.0, float(y.min()))]))
    assert P.shape == (n, 2) and np.all(np.isfinite(P)) and np.all(np.diff(P[:, 0]) > 0) and P[:, 1].min() >= 0
    return P


def _nranks(v, rel=numeric.REL, ab=numeric.ABS):
    """numeric.ranks (noise-merged dense ranks, NaN -> -1) in NumPy, for vectors of 10^5 entries"""
    v = np.asarray(v, dtype=float)
    r = np.full(len(v), -1, dtype=np.int64)
    ok = np.flatnonzero(~np.isnan(v))
    if len(ok) == 0:
        return r
    order = ok[np.argsort(v[ok], kind="stable")]
    s = v[order]
    with np.errstate(invalid="ignore"):
        new = ~(np.abs(s[1:] - s[:-1]) <= np.maximum(ab, rel * np.maximum(np.abs(s[1:]), np.abs(s[:-1]))))
    r[order] = np.concatenate([[0], np.cumsum(new)])
    return r


def _sparse(r, lo, hi, result, sense, extra=()):
    """the selection of indices that reaches TLC: r = full rank vector (by index).  Returns idx, rank, size of the optimiser
    set, number of rank classes in lo..hi; None if a criterion value in the range is undefined (pins nothing)."""
    ra = np.asarray(r[lo:hi + 1])
    if len(ra) == 0 or np.any(ra < 0):
        return None
    opt = lo + np.flatnonzero(ra == (ra.max() if sense == "max" else ra.min()))
    pick = {lo, hi}
    if lo <= result <= hi:
        pick.add(int(result))
    pick.update(int(opt[j]) for j in np.unique(np.linspace(0, len(opt) - 1, min(len(opt), 12)).astype(int)))
    pick.update(t + d for t in scale.THRESHOLDS for d in (-1, 0, 1) if lo <= t + d <= hi)
    pick.update(int(j) for j in np.linspace(lo, hi, 24).astype(int))
    pick.update(int(e) for e in extra if lo <= e <= hi)
    idx = sorted(pick)
    return idx, [int(r[k]) for k in idx], int(len(opt)), int(len(np.unique(ra)))


def _lband(n, y, cost, emin):
    """noise of the two-line error on n points: every residual carries a rounding error of a few ulps of the ordinates, so
    sqrt(RSS) is known to about sqrt(n)*eps*|y| and RSS to twice that times sqrt(RSS); relative noise grows like n*eps"""
    d = 64.0 * _EPS * math.sqrt(n) * (float(np.max(np.abs(y))) + 1.0)
    ab = d if cost == "rmse" else d * d + 2.0 * d * math.sqrt(max(emin, 0.0))
    return numeric.REL + 8.0 * n * _EPS, max(numeric.ABS, ab)


def _lscan(x, y, fit, cost):
    """the independent criterion on every split 2..n-3 of the curve and its noise-merged ranks (by index)"""
    n = len(x)
    E = np.array([_lerr(x, y, i, fit, cost) for i in range(2, n - 2)])
    rel, ab = _lband(n, y, cost, float(np.nanmin(E)) if not np.all(np.isnan(E)) else 0.0)
    r = np.concatenate([[-1, -1], _nranks(E, rel, ab), [-1, -1]])
    return E, r


def _lclosure(x, y, fit, mode, limit, cap_cut=24, cap_set=6, cap_states=4000):
    """sparse A table: the optimiser sets of the prefixes that the refinement machine (DetectorProps.LFinals) can reach from
    cutoff n.  None when a tie set or the reachable set is too large to enumerate (the case then pins nothing)."""
    n = len(x)
    cache = {}

    def argset(cut):
        if cut not in cache:
            if cut + 1 < 5 or len(cache) >= (cap_cut if fit == "pointfit" else 8):
                cache[cut] = [] if cut + 1 < 5 else None
            else:
                _, r = _lscan(x[:cut + 1], y[:cut + 1], fit, "rmse")
                ra = r[2:-2]
                cache[cut] = None if np.any(ra < 0) else [int(k) for k in 2 + np.flatnonzero(ra == ra.min())]
        return cache[cut]

    stack, seen_states = [(n, -1, n, frozenset())], set()
    while stack:
        st = stack.pop()
        cur, last, cutoff, seen = st
        if cur == last or st in seen_states:
            continue
        seen_states.add(st)
        ks = argset(min(cutoff, n))
        if ks is None or len(ks) > cap_set or len(seen_states) > cap_states:
            return None
        for c2 in ks:
            if mode == "adjusted":
                stack.append((c2, cur, max(limit, (c2 + cur) // 2), seen))
            elif mode == "original" and c2 not in seen:
                stack.append((c2, cur, max(limit, min(2 * c2, n)), seen | {c2}))
    return [{"cut": int(c), "ks": ks} for c, ks in sorted(cache.items())]


def _dclosure(g, cap_cut=200, cap_set=8):
    """sparse G table: argmin sets of |gradient - isodata(gradient)| over the interior of the suffixes that the DFDT loop
    machine (DetectorProps.DfdtFinals) can reach from cutoff 0; None when a tie set is too large to enumerate"""
    import uts.thresholding as th
    n = len(g)
    cache = {}
    stack, seen_states = [(0, -1, 0)], set()
    while stack:
        st = stack.pop()
        knee, last, cutoff = st
        if st in seen_states or not (last < knee and n - cutoff > 2):
            continue
        seen_states.add(st)
        if cutoff not in cache:
            if len(cache) >= cap_cut:
                return None
            gg = g[cutoff:]
            ra = _nranks(np.absolute(gg - th.isodata(gg))[1:-1])
            cache[cutoff] = None if np.any(ra < 0) else [int(k) for k in cutoff + 1 + np.flatnonzero(ra == ra.min())[:cap_set + 1]]
        ks = cache[cutoff]
        if ks is None or len(ks) > cap_set:
            return None
        for k in ks:
            stack.append((k, knee, (k + 1) // 2))
    return [{"cut": int(c), "ks": ks} for c, ks in sorted(cache.items())]


def _record_scale(item):
    import kneeliverse.curvature as cu
    import kneeliverse.dfdt as df
    import kneeliverse.menger as me
    import kneeliverse.lmethod as lm
    import uts.gradient as grad
    import uts.thresholding as th
    cid, spec, what = item
    what = tuple(what) if isinstance(what, list) else what
    P = _build(spec)
    x, y = P[:, 0].copy(), P[:, 1].copy()
    n = len(P)
    _WIDE[0] = False
    # what the detector is called with: the same integral curve as an int64 array when the spec asks for it
    PC = P.astype(np.int64) if spec.get("dtype") == "int64" and np.all(P == np.floor(P)) else P
    xc, yc = PC[:, 0].copy(), PC[:, 1].copy()
    meta = {"spec": spec, "what": what, "n": n, "nt": False, "dtype": str(PC.dtype)}
    best = not isinstance(what, str) and len(what) > 1 and what[1] == "bestfit"
    # hang detectors only: total back-edges quadratic in n, CPU seconds about 40x what the unchanged code needs
    B, W = monitor.quad(n, 8), int(120 + (1.5e-6 if best else 1e-7) * n * n)

    def base(kind, res, lo_ok=1, hi_ok=None):
        o, v, _ = res
        c = {"id": cid, "kind": kind, "n": n, "outcome": o, "result": -1, "lo_ok": lo_ok, "hi_ok": n - 2 if hi_ok is None else hi_ok}
        if o == "returned":
            if isinstance(v, tuple):
                v = v[0]
            c["result"] = int(v) if v is not None else -1
        else:
            meta["error"] = v
        return c

    def argopt(c, det, sense, lo, hi, r, extra=()):
        sp = _sparse(r, lo, hi, c["result"], sense, extra)
        if sp is None:
            meta["unpinned"] = "undefined criterion value"
            c["kind"] = "common"
            return c
        c.update(det=det, sense=sense, lo=lo, hi=hi, idx=sp[0], rank=sp[1])
        meta.update(optimisers=sp[2], nt=sp[3] >= 2)
        return c

    if what == "curvature":
        c = base("argopt", monitor.call(cu.knee, (PC,), budget=B, wall=W))
        g1, g2 = grad.cfd(x, y), grad.csd(x, y)
        crit = np.absolute(g2) / ((1.0 + g1 ** 2.0) ** 1.5)
        argopt(c, "curvature", "max", 1, n - 2, np.concatenate([[-1], _nranks(crit[1:-1]), [-1]]))
    elif what == "menger":
        c = base("argopt", monitor.call(me.knee, (PC,), budget=B, wall=W), lo_ok=0)
        f, g, h = P[:-2], P[1:-1], P[2:]
        cr = np.abs((g[:, 0] - f[:, 0]) * (h[:, 1] - f[:, 1]) - (h[:, 0] - f[:, 0]) * (g[:, 1] - f[:, 1]))
        den = np.hypot(*(g - f).T) * np.hypot(*(h - g).T) * np.hypot(*(h - f).T)
        with np.errstate(invalid="ignore", divide="ignore"):
            crit = np.concatenate([[0.0], np.where(den > 0, 2.0 * cr / den, np.nan), [0.0]])
        argopt(c, "menger", "max", 0, n - 1, _nranks(crit))
    elif what == "dfdt_get":
        c = base("argopt", monitor.call(df.get_knee, (xc, yc), budget=B, wall=W))
        g = grad.cfd(x, y)
        d = np.absolute(g - th.isodata(g))
        argopt(c, "dfdt.get_knee", "min", 1, n - 2, np.concatenate([[-1], _nranks(d[1:-1]), [-1]]))
    elif what == "dfdt":
        c = base("dfdt", monitor.call(df.knee, (PC,), budget=B, wall=W))
        G = _dclosure(grad.cfd(x, y))
        if G is None:
            meta["unpinned"] = "tie sets of the DFDT criterion too large to enumerate"
            c["kind"] = "common"
        else:
            c.update(G=G, fuel=n + 3)
            meta.update(cutoffs=len(G), nt=len(G) >= 2)
    elif what[0] == "lget":
        fit, cost = enums.pick(lm.Fit, what[1]), enums.pick(lm.Cost, what[2])
        c = base("argopt", monitor.call(lm.get_knee, (xc, yc, fit, cost), budget=B, wall=W), lo_ok=2, hi_ok=n - 3)
        E, r = _lscan(x, y, what[1], what[2])
        loc = 2 + 1 + np.flatnonzero((E[1:-1] < E[:-2]) & (E[1:-1] < E[2:]))          # strict local minima of the criterion
        loc = loc[np.argsort(E[loc - 2], kind="stable")[:12]]
        argopt(c, "lmethod.get_knee(%s,%s)" % (what[1], what[2]), "min", 2, n - 3, r, extra=loc)
        length = x[-1] - x[0]
        for k in c["idx"]:
            a, b = float(E[k - 2]), float(lm.compute_error(x, y, k, length, fit, cost)[0])
            if not numeric.close(a, b, rel=1e-6, ab=1e-9 * (1.0 + float(np.max(np.abs(E))))):
                meta["drift"] = "lmethod.compute_error differs from the independent criterion at split %d (n=%d): %r vs %r" % (k, n, b, a)
                break
        # the longest stretch of splits without a new running minimum on the way to the global one (0 = unimodal descent)
        recs = np.concatenate([[0], 1 + np.flatnonzero(E[1:] < np.minimum.accumulate(E)[:-1])])
        meta["gap"] = int(np.max(np.diff(recs))) if len(recs) > 1 else 0
    else:  # ("lknee", fit, mode, limit) | ("lknee_default",)
        if what[0] == "lknee_default":
            fitn, mode, limit = "pointfit", "adjusted", 10
            res = monitor.call(lm.knee, (PC,), budget=B, wall=W)
        else:
            fitn, mode, limit = what[1], what[2], what[3]
            res = monitor.call(lm.knee, (PC, enums.pick(lm.Fit, fitn), enums.pick(lm.Refinement, mode), limit), budget=B, wall=W)
        c = base("lknee", res, lo_ok=1)
        A = _lclosure(x, y, fitn, mode, limit)
        if A is None:
            meta["unpinned"] = "tie sets / reachable prefixes of the refinement too many to enumerate"
            c["kind"] = "common"
        else:
            c.update(A=A, mode=mode, limit=limit, fuel=n + 3)
            meta.update(cutoffs=len(A), nt=True)
    return c, meta


def _scale_items(ctx):
    rng = ctx.rng
    q = ctx.quick
    items = []

    def add(spec, what, cost):
        items.append((cost, ("S%d" % len(items), spec, what)))

    def pl(n, knots, **kw):
        return dict({"b": "pl", "n": n, "knots": [list(k) for k in knots]}, **kw)

    def near(t):                                   # a ragged size just above a typical threshold
        return t + 1 + rng.randrange(0, max(2, t // 5))

    # ---- L-method: quadratic in n (every split refits both lines), so the sizes are tiered
    lgets = [("lget", f, c) for f in ("pointfit", "bestfit") for c in ("rmse", "rss")]
    lknees = [("lknee", f, m, lim) for f in ("pointfit", "bestfit") for m in ("none", "original", "adjusted") for lim in (4, 10, 1000)]
    tiers = [(near(1024) + 500, 3, True), (near(4096), 3, True), (rng.choice([near(8192), near(10000)]), 2, True), (near(16384), 2, False),
             (near(32768), 1, False)]
    if not q:
        tiers += [(near(8192), 3, True), (near(10000), 3, True), (near(16384), 2, True), (near(32768), 3, False),
                  (near(32768), 1, True), (near(65536), 2, False), (100001 + rng.randrange(0, 5000), 1, False)]
    for n, nshapes, bestfit_ok in tiers:
        shapes = [pl(n, k, name=nm, tex=rng.choice([1.0, 3.0])) for nm, k in _STAIRS.items()]
        rng.shuffle(shapes)
        shapes = shapes[:nshapes] if n > 12000 else shapes
        for _ in range(nshapes):
            kind = rng.choice(["rand", "rand", "rand-h", "rand-v", "ragged", "mrc", "exp", "hyper", "stair"])
            if kind.startswith("rand"):
                shapes.append(pl(n, _rand_knots(rng), flip=kind[5:], tex=rng.choice([0.0, 2.0, 4.0])))
            elif kind == "ragged":
                shapes.append(pl(n, rng.choice(list(_STAIRS.values()) + [_rand_knots(rng)]), x="ragged", tex=rng.choice([0.0, 2.0])))
            elif kind == "mrc":
                shapes.append({"b": "mrc", "n": n, "seed": rng.randrange(10 ** 6), "knees": rng.randrange(2, 7)})
            elif kind == "exp":
                shapes.append({"b": "exp", "n": n, "a": rng.choice([3.0, 6.0, 12.0]), "amp": rng.choice([0.0, 5.0]), "w": rng.choice([9.0, 40.0]),
                               "x": rng.choice(["unit", "ragged"])})
            elif kind == "hyper":
                shapes.append({"b": "hyper", "n": n, "a": rng.choice([10.0, 60.0])})
            else:
                shapes.append({"b": "stair", "n": n, "steps": rng.randrange(3, 7), "seed": rng.randrange(10 ** 6), "grow": rng.random() < 0.5, "jitter": 0,
                               "dtype": rng.choice(["float64", "int64"])})
        cp, cb = 4e-9 * n * n, 6e-8 * n * n            # seconds of one point-fit / best-fit scan plus its oracle
        for k, sp in enumerate(shapes):
            big = n > 12000
            # the two point-fit costs and the public defaults on every shape; the other options sampled
            ws = [("lget", "pointfit", "rmse"), ("lget", "pointfit", "rss")]
            if n > (20000 if q else 60000):
                ws = [ws[k % 2]]
            if n <= (20000 if q else 40000):       # a refinement is about three scans
                if not big or k % 2 == 0:
                    ws.append(("lknee_default",))
                if not (q and big) or k % 2 == 1:
                    ws += rng.sample([w for w in lknees if w[1] == "pointfit"], 1 if big else 2)
            if bestfit_ok and (n <= 5500 or k < (1 if q else 2)) and not (q and n > 10000):
                ws += rng.sample([w for w in lgets if w[1] == "bestfit"], 1)
                if n <= 5500 and (k % 3 == 0 or not q):
                    ws += rng.sample([w for w in lknees if w[1] == "bestfit" and w[2] != "original"], 1)
            for w in ws:
                add(sp, w, (cb if w[1:2] == ("bestfit",) else cp) * (3.0 if w[0].startswith("lknee") else 1.0))

    # ---- curvature, Menger, DFDT (single pass and loop): linear in n
    for n in scale.sizes(ctx, lo=1000, hi=110000, k_quick=4, k_thorough=10):
        seams = [t + d for t in scale.THRESHOLDS for d in (-1, 0, 1) if 1 <= t + d <= n - 2]
        ps = [rng.choice(seams), n - 2 - rng.randrange(0, 3), rng.randrange(n // 2, n - 2) | 1, rng.randrange(1, n - 2)]
        shapes = [{"b": "kink", "n": n, "p": p, "s": rng.choice([100.0, 400.0]),
                   "decoys": sorted(rng.sample(range(1, max(2, p)), min(3, max(0, p - 1))))} for p in (ps if not q else rng.sample(ps, 3))]
        pool = [{"b": "mrc", "n": n, "seed": rng.randrange(10 ** 6), "knees": rng.randrange(3, 9)},
                {"b": "exp", "n": n, "a": rng.choice([3.0, 8.0]), "amp": 5.0, "w": rng.choice([9.0, 40.0, 300.0]), "x": rng.choice(["unit", "ragged"])},
                {"b": "stair", "n": n, "steps": rng.randrange(5, 200), "seed": rng.randrange(10 ** 6), "grow": True, "jitter": 0,
                 "dtype": rng.choice(["float64", "int64"])},
                {"b": "stair", "n": n, "steps": rng.randrange(5, 60), "seed": rng.randrange(10 ** 6), "grow": False, "jitter": rng.choice([0, 1])},
                {"b": "convex", "n": n, "corners": rng.randrange(3, 40), "flip": rng.choice(["", "h"]), "dtype": rng.choice(["float64", "int64"])},
                {"b": "valley", "n": n, "seed": rng.randrange(10 ** 6), "dtype": rng.choice(["float64", "int64"])},
                {"b": "elbow", "n": n, "corner": rng.choice(seams), "s1": -0.5, "s2": -0.03125},
                {"b": "jline", "n": n, "a": n // 3, "b2": n // 3 + 50, "amp": 2.0},
                {"b": "spikes", "n": n, "period": rng.choice([4, 7])},
                pl(n, rng.choice(list(_STAIRS.values())), x=rng.choice(["unit", "ragged"])),
                {"b": "hyper", "n": n, "a": rng.choice([10.0, 60.0]), "x": "ragged"}]
        shapes += rng.sample(pool, 5 if q else 9)
        for sp in shapes:
            for w in ("curvature", "menger", "dfdt_get", "dfdt"):
                add(sp, w, 1e-5 * n)
    items.sort(key=lambda t: -t[0])                # longest first: the pool takes them one by one
    return [it for _, it in items]


_SSTATIC = [
    {"id": "z0", "kind": "argopt", "n": 5000, "outcome": "returned", "result": 4097, "lo_ok": 2, "hi_ok": 4997, "det": "lmethod.get_knee",
     "sense": "min", "lo": 2, "hi": 4997, "idx": [2, 700, 4095, 4096, 4097, 4997], "rank": [4100, 9, 2, 1, 0, 3000]},
    {"id": "z1", "kind": "dfdt", "n": 40000, "outcome": "returned", "result": 33000, "lo_ok": 1, "hi_ok": 39998, "fuel": 40003,
     "G": [{"cut": 0, "ks": [20000]}, {"cut": 10000, "ks": [33000, 33001]}, {"cut": 16500, "ks": [33000]}, {"cut": 16501, "ks": [33001]}]},
    {"id": "z2", "kind": "lknee", "n": 6000, "outcome": "returned", "result": 1200, "lo_ok": 1, "hi_ok": 5998, "mode": "adjusted", "limit": 10, "fuel": 6003,
     "A": [{"cut": 6000, "ks": [3500]}, {"cut": 4750, "ks": [1250]}, {"cut": 2375, "ks": [1200]}, {"cut": 1225, "ks": [1200]}]},
]


def _scale_selftests():
    import copy
    z0, z1, z2 = [copy.deepcopy(s) for s in _SSTATIC]
    out = [(z0, "ok"), (z1, "ok"), (z2, "ok")]
    c = copy.deepcopy(z0); c["result"] = 700; out.append((c, "not-optimal"))           # the early local minimum
    c = copy.deepcopy(z0); c["result"] = 4096; out.append((c, "not-optimal"))          # one before the seam
    c = copy.deepcopy(z0); c["result"] = 4998; out.append((c, "interior"))
    c = copy.deepcopy(z0); c["result"] = 3000; out.append((c, "table-incomplete"))
    c = copy.deepcopy(z0); c["outcome"] = "watchdog"; out.append((c, "terminates"))
    c = copy.deepcopy(z1); c["result"] = 33001; out.append((c, "ok"))
    c = copy.deepcopy(z1); c["result"] = 20000; out.append((c, "loop-fixpoint"))
    c = copy.deepcopy(z1); c["result"] = 232; out.append((c, "loop-fixpoint"))         # 33000 - 2^15
    c = copy.deepcopy(z1); c["G"] = c["G"][:3]; out.append((c, "table-incomplete"))
    c = copy.deepcopy(z2); c["result"] = 1250; out.append((c, "loop-fixpoint"))
    c = copy.deepcopy(z2); c["result"] = 3500; out.append((c, "loop-fixpoint"))
    c = copy.deepcopy(z2); c["mode"] = "none"; c["result"] = 3500; out.append((c, "ok"))
    c = copy.deepcopy(z2); c["A"][2]["ks"] = []; c["result"] = 77; out.append((c, "ok"))     # unpinned prefix
    return out


def _validate_scale(ctx, cases, selftest):
    rej = ctx.trace("Trace_DetectorsScale", cases, selftest=_scale_selftests() if selftest else None, chunk=400)
    bad = {cid: vs for cid, vs in rej.items() if any(v[0] == "table-incomplete" for v in vs)}
    if bad:
        from harness.main import Machinery
        raise Machinery("Trace_DetectorsScale: the recorder produced an incomplete sparse table: %s" % sorted(bad.items())[:3])
    return rej


def _match(clause, w):
    return "%s:%s" % (clause, w if isinstance(w, str) else ":".join(str(v) for v in w[:3]))


def run_scale(ctx):
    from harness.main import Machinery
    for _ in range(20):                            # the NumPy ranks are the table's ranks
        v = [ctx.rng.choice([0.0, 1.0, 1.0 + 5e-10, 1.0 + 1e-9, 2.0, float("nan"), -3.0, 1e-13]) for _ in range(12)]
        if list(_nranks(v)) != numeric.ranks(v):
            raise Machinery("c09._nranks differs from numeric.ranks on %s" % v)
    items = _scale_items(ctx)
    rec = par.pmap(_record_scale, items, chunksize=1)
    cases = [c for c, _ in rec]
    meta = {c["id"]: m for c, m in rec}
    nbytes = len(__import__("json").dumps(cases))
    rej = _validate_scale(ctx, cases, selftest=True)
    agg = {"cases": len(cases), "sizes": sorted(set(m["n"] for m in meta.values())), "json_bytes_to_tlc": nbytes,
           "by_detector": {}, "unpinned": 0, "lmethod_scans_with_a_rise_more_than_1000_splits_before_the_optimum": 0,
           "optimum_beyond_2^15": 0, "largest_refinement_table": 0, "int64_calls": 0}
    for c in cases:
        m = meta[c["id"]]
        w = m["what"] if isinstance(m["what"], str) else ":".join(str(v) for v in m["what"][:3])
        agg["by_detector"][w] = agg["by_detector"].get(w, 0) + 1
        agg["unpinned"] += "unpinned" in m
        agg["int64_calls"] += m["dtype"] == "int64"
        agg["lmethod_scans_with_a_rise_more_than_1000_splits_before_the_optimum"] += m.get("gap", 0) > 1000
        agg["optimum_beyond_2^15"] += c["result"] > 32768 and m["nt"]
        agg["largest_refinement_table"] = max(agg["largest_refinement_table"], m.get("cutoffs", 0))
        ctx.count(("scale", m["spec"], str(m["what"])), m["nt"])
        if "drift" in m:
            ctx.note("DRIFT: " + m["drift"][:300])
    ctx.extra["scale"] = agg
    if agg["lmethod_scans_with_a_rise_more_than_1000_splits_before_the_optimum"] < 4 or agg["unpinned"] > len(cases) // 3:
        ctx.note("VACUOUS-SCALE-FAMILY (what the family was built to reach did not occur in this run; a note, not a failure: see DESIGN 11.8): %s" % (agg,)); ctx.extra.setdefault("scale_vacuous", True)
    for cid, vs in rej.items():
        m = meta[cid]
        ctx.violation(vs[0][0], {"kind": "S", "spec": m["spec"], "what": m["what"], "cid": cid},
                      {"verdict": vs[0][:6], "error": m.get("error"), "family": "scale", "n": m["n"]}, match=_match(vs[0][0], m["what"]))
    big = max(cases, key=lambda c: (c["kind"] == "argopt" and meta[c["id"]]["nt"], c["n"]))
    ctx.sample({"binding": "T", "family": "scale", "spec": meta[big["id"]]["spec"], "call": meta[big["id"]]["what"],
                "case": {k: v for k, v in big.items() if k != "id"}})


# ------------------------------------------------------------------------------------------------------ integer-magnitude family
# Small (and a few long) INTEGER-valued curves with LARGE ordinates (a y axis in bytes: 10^10 .. 10^14) over integer abscissae
# (steps 1 .. 10^7, x up to about 10^9), every detector and option, each case replayed twice: the array stored as int64 and
# its float64 twin (all values are below 2^53, so the twin is exact).  The criterion tables are computed from the float64 values
# exactly as in the small family and judged by the same Trace_Detectors module; the noise bands are relative to the
# magnitudes (first-order rounding-error bounds of the criterion, see _mag_* below) instead of the absolute 1e-12.
# Envelope (asserted by the builder): the squares of the ordinate differences exceed 2^63 (they wrap if squared in int64),
# while every product of an ordinate with an abscissa difference stays below 2^61 - the unchanged library itself forms
# y*(x1-x2) (uts.gradient.cfd) and dx*dy (menger numerator) in the array's dtype, so larger mixed products are outside
# what any detector handles for integer arrays and would only report that known limitation.
_MAG_PAT = {"unit": [1], "x4": [4], "ragged": [1, 2, 1, 3, 1, 1, 2]}


def _mag_build(spec):
    """spec -> (n, 2) int64, strictly increasing x >= 0, y >= 0, all values < 2^53, inside the envelope above"""
    n, Y, sx = int(spec["n"]), int(spec["Y"]), int(spec["sx"])
    steps = scale.tile(_MAG_PAT[spec["x"]], n - 1).astype(np.int64) * sx
    xs = int(spec.get("x0", 0)) + np.concatenate([[0], np.cumsum(steps)]).astype(np.int64)
    i = np.arange(n, dtype=np.int64)
    t = (xs - xs[0]) / float(xs[-1] - xs[0])
    b = spec["b"]
    if b == "hyp":                                   # Y // (1 + a*i): a miss-ratio style curve in bytes
        y = Y // (1 + int(spec["a"]) * i)
    elif b == "exp":
        y = np.floor(Y * np.exp(-spec["a"] * t)).astype(np.int64)
    elif b == "pow":
        y = np.floor(Y * (1.0 - t) ** spec["a"]).astype(np.int64)
    elif b == "pl":                                  # multi-step staircase (knots in 0..1000) with an integer texture
        y = np.floor(Y / 1000.0 * np.interp(t, [k[0] for k in spec["knots"]], [k[1] for k in spec["knots"]])).astype(np.int64)
        y = y + (Y // 997) * ((i * i) % 7)
    elif b == "kink":                                # convex decay with one sharp kink at index p
        y = np.floor(Y * (1.0 - i / float(n)) ** 2 + (Y / 3.0 / n) * np.maximum(0, spec["p"] - i)).astype(np.int64)
    else:
        raise ValueError(b)
    fl = spec.get("flip", "")
    if "h" in fl:
        y = y[::-1]
    if "v" in fl:
        y = y.max() - y
    P = np.ascontiguousarray(np.column_stack([xs, y - min(0, int(y.min()))]).astype(np.int64))
    dx2 = int(np.max(xs[2:] - xs[:-2])) if n > 2 else int(xs[-1] - xs[0])
    assert P.shape == (n, 2) and np.all(np.diff(P[:, 0]) > 0) and P.min() >= 0 and int(P.max()) < 2 ** 53
    assert int(P[:, 1].max()) * dx2 < 2 ** 61 and dx2 * dx2 < 2 ** 61, "outside the integer envelope"
    return P


def _mag_grad_err(x, y):
    """first-order bounds of the rounding error of cfd / csd evaluated in float64 on these values (by index; the two end
    values of cfd come from the same three terms as their neighbours): 8 eps * sum of the magnitudes of the Lagrange terms"""
    x0, x1, x2, y0, y1, y2 = x[:-2], x[1:-1], x[2:], y[:-2], y[1:-1], y[2:]
    a, b, c = 1.0 / np.abs((x0 - x1) * (x0 - x2)), 1.0 / np.abs((x1 - x0) * (x1 - x2)), 1.0 / np.abs((x2 - x0) * (x2 - x1))
    span = x2 - x0
    t1 = (np.abs(y0) * a + np.abs(y1) * b + np.abs(y2) * c) * 2.0 * span
    t2 = 2.0 * (np.abs(y0) * a + np.abs(y1) * b + np.abs(y2) * c)
    e1, e2 = 8.0 * _EPS * t1, 8.0 * _EPS * t2
    return np.concatenate([[e1[0]], e1, [e1[-1]]]), np.concatenate([[e2[0]], e2, [e2[-1]]])


def _record_mag(item):
    import kneeliverse.curvature as cu
    import kneeliverse.dfdt as df
    import kneeliverse.menger as me
    import kneeliverse.lmethod as lm
    import uts.gradient as grad
    import uts.thresholding as th
    cid, spec, what, dtype = item
    what = tuple(what) if isinstance(what, list) else what
    PI = _mag_build(spec)
    P = PI.astype(float)                         # exact; the criteria are computed from these float64 values
    x, y = P[:, 0].copy(), P[:, 1].copy()
    n = len(P)
    PC = PI.copy() if dtype == "int64" else P.copy()
    xc, yc = PC[:, 0].copy(), PC[:, 1].copy()
    _WIDE[0] = False
    dy = np.abs(np.diff(PI[:, 1]))
    meta = {"spec": spec, "what": what, "dtype": dtype, "n": n, "sq_wraps": bool(int(dy.max()) ** 2 >= 2 ** 63), "nt": False,
            "xmax": int(PI[:, 0].max())}
    B, W = 3000 * n + 20000, 30

    def base(kind, res, lo_ok=1, hi_ok=None):
        o, v, _ = res
        c = {"id": cid, "kind": kind, "n": n, "outcome": o, "result": -1, "lo_ok": lo_ok, "hi_ok": n - 2 if hi_ok is None else hi_ok}
        if o == "returned":
            if isinstance(v, tuple):
                v = v[0]
            c["result"] = int(v) if v is not None else -1
        else:
            meta["error"] = v
        return c

    def rk(v, ab, rel=1e-8):
        return [int(k) for k in _nranks(v, rel, ab)]

    def argset(v, ab, rel=1e-8):
        r = _nranks(v, rel, ab)
        if np.any(r < 0):
            return list(range(len(v)))
        return [int(k) for k in np.flatnonzero(r == r.min())]

    if what == "curvature":
        c = base("argopt", monitor.call(cu.knee, (PC,), budget=B, wall=W))
        g1, g2 = grad.cfd(x, y), grad.csd(x, y)
        crit = np.absolute(g2) / ((1.0 + g1 ** 2.0) ** 1.5)
        e1, e2 = _mag_grad_err(x, y)
        err = e2 / ((1.0 + g1 ** 2.0) ** 1.5) + crit * 3.0 * np.abs(g1) * e1 / (1.0 + g1 ** 2.0)
        ab = 16.0 * float(np.max(err[1:-1])) + 1e-9 * float(np.max(crit[1:-1]))
        c.update(det="curvature", sense="max", lo=1, hi=n - 2, rank=[-1] + rk(crit[1:-1], ab) + [-1])
    elif what == "menger":
        c = base("argopt", monitor.call(me.knee, (PC,), budget=B, wall=W), lo_ok=0)
        f, g, h = P[:-2], P[1:-1], P[2:]
        p1, p2 = (g[:, 0] - f[:, 0]) * (h[:, 1] - f[:, 1]), (h[:, 0] - f[:, 0]) * (g[:, 1] - f[:, 1])
        den = np.hypot(*(g - f).T) * np.hypot(*(h - g).T) * np.hypot(*(h - f).T)
        with np.errstate(invalid="ignore", divide="ignore"):
            crit = np.concatenate([[0.0], np.where(den > 0, 2.0 * np.abs(p1 - p2) / den, np.nan), [0.0]])
            err = 16.0 * _EPS * 2.0 * (np.abs(p1) + np.abs(p2)) / den
        ab = 8.0 * float(np.nanmax(err)) + 1e-9 * float(np.nanmax(crit))
        c.update(det="menger", sense="max", lo=0, hi=n - 1, rank=rk(crit, ab))
    elif what in ("dfdt_get", "dfdt"):
        g = grad.cfd(x, y)
        e1, _ = _mag_grad_err(x, y)
        if what == "dfdt_get":
            c = base("argopt", monitor.call(df.get_knee, (xc, yc), budget=B, wall=W))
            d = np.absolute(g - th.isodata(g))
            ab = 32.0 * float(np.max(e1)) + 1e-9 * float(np.max(d))
            c.update(det="dfdt.get_knee", sense="min", lo=1, hi=n - 2, rank=[-1] + rk(d[1:-1], ab) + [-1])
        else:
            c = base("dfdt", monitor.call(df.knee, (PC,), budget=B, wall=W))
            G = []
            for cut in range(0, n):
                if n - cut > 2:
                    gg = g[cut:]
                    d = np.absolute(gg - th.isodata(gg))
                    ab = 32.0 * float(np.max(e1[cut:])) + 1e-9 * float(np.max(d))
                    G.append([cut + 1 + k for k in argset(d[1:-1], ab)])
                else:
                    G.append([])
            c["G"] = G
            meta["nt"] = True
    else:
        # the residuals are differences of numbers of size |y| + |slope * x|: their rounding noise is relative to that size
        S = float(np.max(np.abs(y))) + float(np.max(np.abs(np.diff(y) / np.diff(x)))) * float(np.max(np.abs(x)))

        def lranks(xp, yp, fitn, cost):
            E = np.array([_lerr(xp, yp, k, fitn, cost) for k in range(2, len(xp) - 2)])
            rel, ab = _lband(len(xp), np.array([S]), cost, float(np.nanmin(E)) if not np.all(np.isnan(E)) else 0.0)
            return E, rel, ab

        if what[0] == "lget":
            fit, cost = enums.pick(lm.Fit, what[1]), enums.pick(lm.Cost, what[2])
            c = base("argopt", monitor.call(lm.get_knee, (xc, yc, fit, cost), budget=B, wall=W), lo_ok=2, hi_ok=n - 3)
            E, rel, ab = lranks(x, y, what[1], what[2])
            length = x[-1] - x[0]
            lib = [float(lm.compute_error(x, y, k, length, fit, cost)[0]) for k in range(2, n - 2)]
            tol = ab + 1e-9 * (1.0 + float(np.max(np.abs(E))))
            if not all(numeric.close(a, b2, rel=1e-6, ab=tol) for a, b2 in zip(E, lib)):
                meta["drift"] = "lmethod.compute_error differs from the independent criterion (large integer curve): %s vs %s" % (lib[:4], list(E[:4]))
            c.update(det="lmethod.get_knee(%s,%s)" % (what[1], what[2]), sense="min", lo=2, hi=n - 3,
                     rank=[-1, -1] + rk(E, ab, max(rel, 1e-8)) + [-1, -1])
        else:  # ("lknee", fit, mode, limit)
            fit, mode, limit = enums.pick(lm.Fit, what[1]), enums.pick(lm.Refinement, what[2]), what[3]
            c = base("lknee", monitor.call(lm.knee, (PC, fit, mode, limit), budget=B, wall=W), lo_ok=1)
            A = []
            for cut in range(0, n + 1):
                xp, yp = x[0:cut + 1], y[0:cut + 1]
                if len(xp) < 5:
                    A.append([])
                    continue
                E, rel, ab = lranks(xp, yp, what[1], "rmse")
                A.append([2 + k for k in argset(E, ab, max(rel, 1e-8))])
            c.update(A=A, mode=what[2], limit=limit)
            meta["nt"] = True
    if c["kind"] == "argopt":
        meta["nt"] = len(set(v for v in c["rank"][c["lo"]:c["hi"] + 1] if v >= 0)) >= 2
    return c, meta


def _mag_items(ctx):
    rng = ctx.rng
    q = ctx.quick
    items = []

    def spec_for(n):
        Y = int(rng.choice([2, 5, 10, 20, 50, 100]) * 10 ** rng.choice([10, 11, 11, 12, 12]))            # 2*10^10 .. 10^14 (bytes)
        xp = rng.choice(["unit", "x4", "ragged"])
        top = max(_MAG_PAT[xp]) * 2
        sxs = [s for s in (1, 1, 10, 1000, 10 ** 5, 10 ** 6, 10 ** 7) if Y * top * s < 2 ** 60 and s * (n + 2) * top < 4 * 10 ** 9]
        sp = {"n": n, "Y": Y, "x": xp, "sx": rng.choice(sxs), "x0": rng.choice([0, 0, 1, 1000])}
        b = rng.choice(["hyp", "hyp", "exp", "pow", "pl", "kink"])
        sp["b"] = b
        if b == "hyp":
            sp["a"] = rng.choice([1, 2, 4, 9])
        elif b == "exp":
            sp["a"] = rng.choice([3.0, 6.0, 12.0])
        elif b == "pow":
            sp["a"] = rng.choice([2.0, 3.0, 5.0])
        elif b == "pl":
            sp["knots"] = rng.choice(list(_STAIRS.values()) + [_rand_knots(rng)])
        else:
            sp["p"] = rng.randrange(1, n - 1)
        sp["flip"] = rng.choice(["", "", "", "h", "v", "hv"])
        return sp

    lgets = [("lget", f, c) for f in ("pointfit", "bestfit") for c in ("rss", "rmse")]
    lknees = [("lknee", f, m, lim) for f in ("pointfit", "bestfit") for m in ("none", "original", "adjusted") for lim in (4, 5, 10)]
    sizes = [rng.randrange(5, 65) for _ in range(36 if q else 300)] + [3, 4, 5, 40]
    sizes += [257 + rng.randrange(0, 60), 1025 + rng.randrange(0, 200)] + ([] if q else [257 + rng.randrange(0, 60), 4097 + rng.randrange(0, 400)])
    for n in sizes:
        sp = spec_for(n)
        if n == 40:   # the documented shape of a byte-count miss-ratio curve
            sp = {"n": 40, "Y": 2 * 10 ** 12, "x": "x4", "sx": 1, "x0": 0, "b": "hyp", "a": rng.choice([2, 4, 9]), "flip": ""}
        ws = ["curvature", "menger", "dfdt_get"] + (["dfdt"] if n <= 1500 else [])
        if 5 <= n <= 64:
            ws += rng.sample(lgets, 2) + rng.sample(lknees, 2)
        elif 5 <= n <= 400:
            ws += [("lget", "pointfit", rng.choice(["rss", "rmse"]))]          # (a full refinement table is cubic in n)
        for w in ws:
            for dt in ("int64", "float64"):
                items.append(("m%d" % len(items), sp, w, dt))
    return items


def run_mag(ctx):
    items = _mag_items(ctx)
    rec = par.pmap(_record_mag, items)
    cases = [c for c, _ in rec]
    meta = {c["id"]: m for c, m in rec}
    rej = ctx.trace("Trace_Detectors", cases, chunk=400)
    agg = {"cases": len(cases), "int64_calls": 0, "int64_calls_where_a_squared_ordinate_difference_exceeds_2^63": 0, "non_trivial": 0,
           "largest_ordinate": 0, "largest_abscissa": 0, "by_detector": {}, "sizes": sorted(set(m["n"] for m in meta.values()))}
    for c in cases:
        m = meta[c["id"]]
        w = m["what"] if isinstance(m["what"], str) else ":".join(str(v) for v in m["what"][:3])
        agg["by_detector"][w] = agg["by_detector"].get(w, 0) + 1
        agg["int64_calls"] += m["dtype"] == "int64"
        agg["int64_calls_where_a_squared_ordinate_difference_exceeds_2^63"] += m["dtype"] == "int64" and m["sq_wraps"]
        agg["non_trivial"] += m["nt"]
        agg["largest_ordinate"] = max(agg["largest_ordinate"], m["spec"]["Y"])
        agg["largest_abscissa"] = max(agg["largest_abscissa"], m["xmax"])
        ctx.count(("magnitude", m["spec"], str(m["what"]), m["dtype"]), m["nt"])
        if "drift" in m:
            ctx.note("DRIFT: " + m["drift"][:300])
    ctx.extra["integer_magnitude"] = agg
    for cid, vs in rej.items():
        m = meta[cid]
        ctx.violation(vs[0][0], {"kind": "M", "spec": m["spec"], "what": m["what"], "dtype": m["dtype"], "cid": cid},
                      {"verdict": vs[0][:6], "error": m.get("error"), "family": "integer-magnitude", "n": m["n"], "dtype": m["dtype"]},
                      match=_match(vs[0][0], m["what"]))
    big = max(cases, key=lambda c: (meta[c["id"]]["dtype"] == "int64" and meta[c["id"]]["nt"] and c["n"] <= 40, c["n"] if c["n"] <= 40 else 0))
    ctx.sample({"binding": "T", "family": "integer-magnitude", "spec": meta[big["id"]]["spec"], "dtype": meta[big["id"]]["dtype"],
                "call": meta[big["id"]]["what"], "case": {k: v for k, v in big.items() if k != "id"}})


def inputs(ctx):
    rng = ctx.rng
    items = []
    cs = [P for P in curves.adversarial() if len(P) >= 5]
    cs += [c for c in curves.grid_curves(6, 3, spacings=(1, 2)) if rng.random() < (0.02 if ctx.quick else 0.2)]
    cs += [curves.random_curve(rng, 5, 60) for _ in range(150 if ctx.quick else 1500)]
    # the same kinds of curves at tiny and huge magnitudes (valid curves; exposes absolute epsilons)
    for _ in range(24 if ctx.quick else 200):
        P = curves.random_curve(rng, 5, 40, kind=rng.choice([0, 2, 6]))
        sc = rng.choice([2.0 ** -20, 1e-6, 2.0 ** 20, 1e7])
        cs.append(P * sc)
        cs.append(np.column_stack([P[:, 0] * sc, P[:, 1]]) if rng.random() < 0.5 else np.column_stack([P[:, 0], P[:, 1] * sc]))
    # the smallest curves of the quantifier (n = 3, 4; the L-method needs 5): every loop bound and tail guard is at its edge
    small = []
    for n in (3, 4):
        small += curves.grid_curves(n, 3, spacings=(1, 2))
    small = rng.sample(small, min(len(small), 120 if ctx.quick else 1200))
    small += [curves.mk(range(4), [10, 4, 1, 0]), curves.mk(range(4), [9, 1, 0.5, 0]), curves.mk(range(3), [5, 1, 0])]
    longs = [curves.random_curve(rng, n, n, kind=rng.choice([0, 2, 6])) for n in ([700, 2500] if ctx.quick else [700, 2500, 2500, 6000])]
    k = 0
    for P in longs:                 # long curves (size-dependent code paths)
        for w in ["curvature", "menger", "dfdt_get", "dfdt"] + ([("lget", "pointfit", "rss"), ("lknee", "pointfit", "adjusted", 10)] if len(P) <= 800 else []):
            items.append(("d%d" % k, P.tolist(), w))
            k += 1
    for P in small:
        for w in ["curvature", "menger", "dfdt_get", "dfdt"]:
            items.append(("d%d" % k, P.tolist(), w))
            k += 1
    for P in cs:
        n = len(P)
        whats = ["curvature", "menger", "dfdt_get", "dfdt"]
        lgets = [("lget", f, c) for f in ("pointfit", "bestfit") for c in ("rss", "rmse")]
        lknees = [("lknee", f, m, lim) for f in ("pointfit", "bestfit") for m in ("none", "original", "adjusted") for lim in (4, 5, 10)]
        whats += rng.sample(lgets, 2) + rng.sample(lknees, 3 if n <= 35 else 1)
        for w in whats:
            if isinstance(w, tuple) and w[1] == "bestfit" and n > 35:
                continue
            items.append(("d%d" % k, P.tolist(), w))
            k += 1
            if np.all(P == np.floor(P)) and np.all(np.abs(P) < 2 ** 40) and rng.random() < 0.6:
                items.append(("i%d" % k, P.tolist(), w))          # the same integral curve as an int64 array
                k += 1
            elif np.all(P[:, 0] == np.floor(P[:, 0])) and np.all(np.abs(P[:, 0]) < 2 ** 30) and rng.random() < 0.25:
                items.append(("o%d" % k, P.tolist(), w))          # the same curve translated far to the right
                k += 1
    return items


STATIC = [
    {"id": "s0", "kind": "argopt", "n": 6, "outcome": "returned", "result": 2, "lo_ok": 1, "hi_ok": 4, "det": "curvature",
     "sense": "max", "lo": 1, "hi": 4, "rank": [-1, 0, 3, 1, 2, -1]},
    {"id": "s1", "kind": "dfdt", "n": 8, "outcome": "returned", "result": 5, "lo_ok": 1, "hi_ok": 6,
     "G": [[3], [3], [5], [5], [5], [6], [], []]},       # 0 -> knee 3, cutoff 2 -> knee 5, cutoff 3 -> knee 5: stop
    {"id": "s2", "kind": "lknee", "n": 12, "outcome": "returned", "result": 4, "lo_ok": 1, "hi_ok": 10, "mode": "adjusted", "limit": 5,
     "A": [[], [], [], [], [2], [2, 3], [3], [4], [4], [4], [5], [6], [6]]},   # 12 -> 6, cutoff 9 -> 4, cutoff 5 -> {2,3}...
]


def _selftests():
    import copy
    s0, s1, s2 = [copy.deepcopy(s) for s in STATIC]
    # s2: cur=12,last=-1,cutoff=12: A[12]=6 -> cur 6, cutoff max(5,(6+12)//2=9); A[9]=4 -> cur 4, cutoff max(5,5)=5; A[5] in {2,3}
    s2["result"] = 2
    s2b = copy.deepcopy(s2); s2b["result"] = 4
    # from cur=2 (last 4): cutoff max(5,3)=5 -> A[5]: 2 -> stop (2==2) or 3 -> cutoff 5 -> ... finals {2,3}
    out = [(s0, "ok"), (s1, "ok"), (s2, "ok"), (s2b, "loop-fixpoint")]
    c = copy.deepcopy(s0); c["result"] = 3; out.append((c, "not-optimal"))
    c = copy.deepcopy(s0); c["result"] = 0; out.append((c, "interior"))
    c = copy.deepcopy(s1); c["result"] = 3; out.append((c, "loop-fixpoint"))
    c = copy.deepcopy(s1); c["outcome"] = "budget"; out.append((c, "terminates"))
    return out


def run(ctx):
    from harness import growth
    growth.safe(ctx, growth.lrefine_steps)
    ctx.rule = ("curves with 5<=n<=60 (adversarial, sampled grid, random families) x {curvature, Menger, DFDT single pass, "
                "DFDT loop, L-method get_knee (Fit x Cost), L-method knee (Fit x Refinement x limit in {4,5,10})}; "
                "non-trivial: the criterion has at least two distinct rank classes over the admissible range; "
                "scale family: the same detectors and options (plus lmethod.knee with its public defaults) on built curves of "
                "10^3 .. 1.1*10^5 points (L-method: 1.5*10^3 .. 3.9*10^4 quick / 1.05*10^5 thorough, best fit up to 10^4 / 3.9*10^4) - "
                "long multi-step staircases whose two-line error is not unimodal, kinks at block seams and beyond 2^15, smooth / "
                "textured decays, unit and ragged abscissae - judged by Trace_DetectorsScale on sparse tables (returned index, "
                "optimisers, seam neighbours, local optima; reachable cutoffs of the two refinement loops); "
                "integer-magnitude family: the same detectors and options on integer-valued curves (hyperbolic byte-count curves, "
                "exponential / power decays, textured staircases, kinks; flips; 3 <= n <= 64 plus sizes just above 256 / 1024 / 4096 "
                "for the linear detectors and the point-fit scan) with ordinates up to 2*10^10 .. 10^14 over unit / x4 / ragged integer "
                "abscissae scaled by 1 .. 10^7, each replayed as an int64 array and as its exact float64 twin, with full tables "
                "computed from the float64 values and judged by Trace_Detectors (same clauses as the small family)")
    ctx.assumptions += numeric.ASSUMPTIONS + [
        "criteria are recomputed by the harness from the stated formulas: uts.gradient.cfd/csd and |f''|/(1+f'^2)^1.5; "
        "|gradient - uts.thresholding.isodata(gradient)| per reachable cutoff; 2|cross|/(product of side lengths); "
        "the two-line error w*sqrt(w*RSS) / w*RSS per part (end-point or least-squares lines) recomputed independently of "
        "lmethod.compute_error on every reachable prefix; a disagreement with compute_error is a DRIFT note",
        "first-versus-last optimiser on ties is not pinned by the property: any member of the noise-merged optimiser set is accepted",
        "L-method: limit >= 4 so that every refined prefix has the 5 points the method needs (limit < 4 is outside the "
        "property's domain n >= 5); prefixes shorter than 5 points pin nothing",
        "scale family: the two-line error on n points is ranked with the noise band rel 1e-9 + 8 n eps / abs 64 eps sqrt(n) max|y| "
        "(RSS form: the band of the square); only the selected indices of a rank vector reach TLC, their ranks are those of the "
        "full vector; a refinement / DFDT case whose reachable tie sets cannot be enumerated (a tie set of more than 6 / 8 "
        "members, e.g. an exactly straight prefix, or more than 24 / 200 reachable prefixes) pins termination and interiority only",
        "integer-magnitude family: squared ordinate differences exceed 2^63 but every product of an ordinate with an abscissa "
        "difference stays below 2^61 (the library itself forms y*(x1-x2) in uts.gradient.cfd and dx*dy in the Menger numerator in "
        "the array's dtype, so larger mixed products of int64 arrays are outside what the detectors handle); ranks are merged "
        "within rel 1e-8 plus an absolute band of 8..32 times the first-order rounding-error bound of the criterion on these "
        "magnitudes (sum of the magnitudes of the cancelling terms times eps) instead of the absolute 1e-12"]
    ctx.mc("LRefine", "MC_LRefine", need_actions=("LStep", "LEnd", "DStep", "DEnd"))
    ctx.mc("LRefine", "MC_LRefine_unguarded", expect="<temporal>")
    ctx.mc("LRefine", "MC_LRefine_prevguard", expect="<temporal>")     # a 2-cycle guard admits a cycle of length 3
    items = inputs(ctx)
    rec = par.pmap(_record, items)
    cases = [c for c, _ in rec]
    meta = {c["id"]: m for c, m in rec}
    rej = ctx.trace("Trace_Detectors", cases, selftest=_selftests(), chunk=400)
    for c in cases:
        nt = True
        if c["kind"] == "argopt":
            vals = set(v for v in c["rank"][c["lo"]:c["hi"] + 1] if v >= 0)
            nt = len(vals) >= 2
        ctx.count((meta[c["id"]]["points"], str(meta[c["id"]]["what"])), nt)
    for c in cases:
        if "drift" in meta[c["id"]]:
            ctx.note("DRIFT: " + meta[c["id"]]["drift"][:300])
    for cid, vs in rej.items():
        m = meta[cid]
        w = m["what"]
        ctx.violation(vs[0][0], {"kind": "T", "points": m["points"], "what": w, "cid": cid},
                      {"verdict": vs[0][:6], "error": m.get("error")},
                      match="%s:%s" % (vs[0][0], w if isinstance(w, str) else ":".join(str(v) for v in w[:3])))
    ctx.sample({"binding": "T", "call": meta[cases[3]["id"]]["what"], "case": {k: v for k, v in cases[3].items() if k != "id"}})
    run_scale(ctx)
    run_mag(ctx)


def replay(ctx, obj):
    c = obj["case"]
    w = c["what"]
    if c.get("kind") == "S":
        case, m = _record_scale((c.get("cid", "replay"), c["spec"], w))
        for cid, vs in _validate_scale(ctx, [case], selftest=False).items():
            ctx.violation(vs[0][0], c, {"verdict": vs[0][:6], "error": m.get("error"), "family": "scale", "n": m["n"]})
        return
    if c.get("kind") == "M":
        case, m = _record_mag((c.get("cid", "replay"), c["spec"], w, c["dtype"]))
        for cid, vs in ctx.trace("Trace_Detectors", [case]).items():
            ctx.violation(vs[0][0], c, {"verdict": vs[0][:6], "error": m.get("error"), "family": "integer-magnitude", "n": m["n"], "dtype": m["dtype"]})
        return
    case, m = _record((c.get("cid", "replay"), c["points"], tuple(w) if isinstance(w, list) else w))
    rej = ctx.trace("Trace_Detectors", [case])
    for cid, vs in rej.items():
        ctx.violation(vs[0][0], c, {"verdict": vs[0][:6], "error": m.get("error")})
