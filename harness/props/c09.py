"""C09 - each single-knee detector returns the interior optimum of its stated criterion.
M: LRefine.tla - DFDT cutoff loop and the three L-method refinement rules terminate for every table of per-cutoff
   answers (n<=13); negative instance: the pinned Refinement.original rule without the cycle guard (TLC lasso).
T: curvature, Menger, DFDT (single pass and loop), L-method get_knee (Fit x Cost) and knee (Fit x Refinement x limit)
   with rank tables computed from the stated criteria, judged by Trace_Detectors."""
import math

import numpy as np

from harness import curves, monitor, numeric, par
from harness import enums


_WIDE = [False]     # set per recorded item: x-translated variants are judged with a wider noise band (see _record)


def _ranks(v):
    if _WIDE[0]:
        fin = [abs(float(a)) for a in v if not math.isnan(float(a)) and not math.isinf(float(a))]
        return numeric.ranks(v, rel=1e-6, ab=1e-7 * (max(fin) if fin else 1.0) + 1e-12)
    return numeric.ranks(v)


def _argset(v, sense):
    r = _ranks(v)
    ok = [x for x in r if x >= 0]
    if not ok:
        return list(range(len(v)))
    best = max(ok) if sense == "max" else min(ok)
    return [i for i, x in enumerate(r) if x == best or x < 0]


def _rss_endpoint(x, y):
    if x[0] == x[-1]:
        return float(np.sum((y - 0.0) ** 2))
    m = (y[0] - y[-1]) / (x[0] - x[-1])
    b = y[0] - m * x[0]
    return float(np.sum((y - (m * x + b)) ** 2))


def _rss_bestfit(x, y):
    xm, ym = x.mean(), y.mean()
    sxx = float(np.sum((x - xm) ** 2))
    if sxx == 0:
        return float(np.sum((y - ym) ** 2))
    m = float(np.sum((x - xm) * (y - ym))) / sxx
    b = ym - m * xm
    return float(np.sum((y - (m * x + b)) ** 2))


def _lerr(x, y, i, fit, cost):
    """the L-method criterion, computed independently of lmethod.compute_error: residual sums of squares of the two
    lines (through the end points of each part, or least squares) weighted by the parts' share of the x range;
    'rmse' form: w*sqrt(w*RSS) per part (the form the library documents), 'rss' form: w*RSS."""
    length = x[-1] - x[0]
    wl, wr = (x[i] - x[0]) / length, (x[-1] - x[i]) / length
    f = _rss_endpoint if fit == "pointfit" else _rss_bestfit
    rl, rr = max(f(x[:i + 1], y[:i + 1]), 0.0), max(f(x[i:], y[i:]), 0.0)
    if cost == "rmse":
        return wl * math.sqrt(rl * wl) + wr * math.sqrt(wr * rr)
    return rl * wl + rr * wr


def _record(item):
    import kneeliverse.curvature as cu
    import kneeliverse.dfdt as df
    import kneeliverse.menger as me
    import kneeliverse.lmethod as lm
    import uts.gradient as grad
    import uts.thresholding as th
    cid, P, what = item
    P = np.asarray(P, float)
    x, y = P[:, 0], P[:, 1]            # criteria are computed from the float64 values
    n = len(P)
    PC = P.astype(np.int64) if cid.startswith("i") else P      # what the detector is called with
    _WIDE[0] = cid.startswith("o")
    if cid.startswith("o"):
        # the same curve far to the right (2^20: abscissae stay exactly representable).  Every criterion is built from x
        # differences, so the optimiser set is the one of the untranslated curve (computed below from P); the detector's
        # own rounding grows with the offset, hence the wider noise band.  Exposes relative comparisons of abscissae.
        PC = P + np.array([float(2 ** 20), 0.0])
    xc, yc = PC[:, 0], PC[:, 1]
    out = []
    meta = {"points": P.tolist(), "what": what}
    B, W = 3000 * n + 20000, 30

    def base(kind, res, lo_ok=1, hi_ok=None):
        o, v, _ = res
        c = {"id": cid, "kind": kind, "n": n, "outcome": o, "result": -1, "lo_ok": lo_ok, "hi_ok": n - 2 if hi_ok is None else hi_ok}
        if o == "returned":
            if isinstance(v, tuple):
                v = v[0]
            c["result"] = int(v) if v is not None else -1
        else:
            meta["error"] = v
        return c

    if what == "curvature":
        c = base("argopt", monitor.call(cu.knee, (PC,), budget=B, wall=W))
        g1, g2 = grad.cfd(x, y), grad.csd(x, y)
        crit = np.absolute(g2) / ((1.0 + g1 ** 2.0) ** 1.5)
        r = [-1] + _ranks(crit[1:-1]) + [-1]
        c.update(det="curvature", sense="max", lo=1, hi=n - 2, rank=r)
    elif what == "menger":
        c = base("argopt", monitor.call(me.knee, (PC,), budget=B, wall=W), lo_ok=0)
        crit = [0.0]
        for i in range(1, n - 1):
            f, g, h = P[i - 1], P[i], P[i + 1]
            cr = abs((g[0] - f[0]) * (h[1] - f[1]) - (h[0] - f[0]) * (g[1] - f[1]))
            den = math.dist(f, g) * math.dist(g, h) * math.dist(f, h)
            crit.append(2.0 * cr / den if den > 0 else float("nan"))
        crit.append(0.0)
        c.update(det="menger", sense="max", lo=0, hi=n - 1, rank=_ranks(crit))
    elif what == "dfdt_get":
        c = base("argopt", monitor.call(df.get_knee, (xc, yc), budget=B, wall=W))
        g = grad.cfd(x, y)
        d = np.absolute(g - th.isodata(g))
        c.update(det="dfdt.get_knee", sense="min", lo=1, hi=n - 2, rank=[-1] + _ranks(d[1:-1]) + [-1])
    elif what == "dfdt":
        c = base("dfdt", monitor.call(df.knee, (PC,), budget=B, wall=W))
        g = grad.cfd(x, y)
        G = []
        for cut in range(0, n):
            if n - cut > 2:
                gg = g[cut:]
                d = np.absolute(gg - th.isodata(gg))[1:-1]
                G.append([cut + 1 + i for i in _argset(d, "min")])
            else:
                G.append([])
        c["G"] = G
    elif what[0] == "lget":
        fit, cost = enums.pick(lm.Fit, what[1]), enums.pick(lm.Cost, what[2])
        c = base("argopt", monitor.call(lm.get_knee, (xc, yc, fit, cost), budget=B, wall=W), lo_ok=2, hi_ok=n - 3)
        length = x[-1] - x[0]
        E = [_lerr(x, y, i, what[1], what[2]) for i in range(2, n - 2)]
        lib = [float(lm.compute_error(x, y, i, length, fit, cost)[0]) for i in range(2, n - 2)]
        if not all(numeric.close(a, b, rel=1e-6, ab=1e-9 * (1.0 + max(abs(v) for v in E))) for a, b in zip(E, lib)):
            meta["drift"] = "lmethod.compute_error differs from the independent criterion: %s vs %s" % (lib[:4], E[:4])
        c.update(det="lmethod.get_knee(%s,%s)" % (what[1], what[2]), sense="min", lo=2, hi=n - 3,
                 rank=[-1, -1] + _ranks(E) + [-1, -1])
    else:  # ("lknee", fit, mode, limit)
        fit, mode, limit = enums.pick(lm.Fit, what[1]), enums.pick(lm.Refinement, what[2]), what[3]
        c = base("lknee", monitor.call(lm.knee, (PC, fit, mode, limit), budget=B, wall=W), lo_ok=1)
        A = []
        for cut in range(0, n + 1):
            xp, yp = x[0:cut + 1], y[0:cut + 1]
            if len(xp) < 5:
                A.append([])
                continue
            length = xp[-1] - xp[0]
            E = [_lerr(xp, yp, i, what[1], "rmse") for i in range(2, len(xp) - 2)]
            A.append([2 + i for i in _argset(E, "min")])
        c.update(A=A, mode=what[2], limit=limit)
    return c, meta


def inputs(ctx):
    rng = ctx.rng
    items = []
    cs = [P for P in curves.adversarial() if len(P) >= 5]
    cs += [c for c in curves.grid_curves(6, 3, spacings=(1, 2)) if rng.random() < (0.02 if ctx.quick else 0.2)]
    cs += [curves.random_curve(rng, 5, 60) for _ in range(150 if ctx.quick else 1500)]
    # the same kinds of curves at tiny and huge magnitudes (valid curves; exposes absolute epsilons)
    for _ in range(24 if ctx.quick else 200):
        P = curves.random_curve(rng, 5, 40, kind=rng.choice([0, 2, 6]))
        sc = rng.choice([2.0 ** -20, 1e-6, 2.0 ** 20, 1e7])
        cs.append(P * sc)
        cs.append(np.column_stack([P[:, 0] * sc, P[:, 1]]) if rng.random() < 0.5 else np.column_stack([P[:, 0], P[:, 1] * sc]))
    # the smallest curves of the quantifier (n = 3, 4; the L-method needs 5): every loop bound and tail guard is at its edge
    small = []
    for n in (3, 4):
        small += curves.grid_curves(n, 3, spacings=(1, 2))
    small = rng.sample(small, min(len(small), 120 if ctx.quick else 1200))
    small += [curves.mk(range(4), [10, 4, 1, 0]), curves.mk(range(4), [9, 1, 0.5, 0]), curves.mk(range(3), [5, 1, 0])]
    longs = [curves.random_curve(rng, n, n, kind=rng.choice([0, 2, 6])) for n in ([700, 2500] if ctx.quick else [700, 2500, 2500, 6000])]
    k = 0
    for P in longs:                 # long curves (size-dependent code paths)
        for w in ["curvature", "menger", "dfdt_get", "dfdt"] + ([("lget", "pointfit", "rss"), ("lknee", "pointfit", "adjusted", 10)] if len(P) <= 800 else []):
            items.append(("d%d" % k, P.tolist(), w))
            k += 1
    for P in small:
        for w in ["curvature", "menger", "dfdt_get", "dfdt"]:
            items.append(("d%d" % k, P.tolist(), w))
            k += 1
    for P in cs:
        n = len(P)
        whats = ["curvature", "menger", "dfdt_get", "dfdt"]
        lgets = [("lget", f, c) for f in ("pointfit", "bestfit") for c in ("rss", "rmse")]
        lknees = [("lknee", f, m, lim) for f in ("pointfit", "bestfit") for m in ("none", "original", "adjusted") for lim in (4, 5, 10)]
        whats += rng.sample(lgets, 2) + rng.sample(lknees, 3 if n <= 35 else 1)
        for w in whats:
            if isinstance(w, tuple) and w[1] == "bestfit" and n > 35:
                continue
            items.append(("d%d" % k, P.tolist(), w))
            k += 1
            if np.all(P == np.floor(P)) and np.all(np.abs(P) < 2 ** 40) and rng.random() < 0.6:
                items.append(("i%d" % k, P.tolist(), w))          # the same integral curve as an int64 array
                k += 1
            elif np.all(P[:, 0] == np.floor(P[:, 0])) and np.all(np.abs(P[:, 0]) < 2 ** 30) and rng.random() < 0.25:
                items.append(("o%d" % k, P.tolist(), w))          # the same curve translated far to the right
                k += 1
    return items


STATIC = [
    {"id": "s0", "kind": "argopt", "n": 6, "outcome": "returned", "result": 2, "lo_ok": 1, "hi_ok": 4, "det": "curvature",
     "sense": "max", "lo": 1, "hi": 4, "rank": [-1, 0, 3, 1, 2, -1]},
    {"id": "s1", "kind": "dfdt", "n": 8, "outcome": "returned", "result": 5, "lo_ok": 1, "hi_ok": 6,
     "G": [[3], [3], [5], [5], [5], [6], [], []]},       # 0 -> knee 3, cutoff 2 -> knee 5, cutoff 3 -> knee 5: stop
    {"id": "s2", "kind": "lknee", "n": 12, "outcome": "returned", "result": 4, "lo_ok": 1, "hi_ok": 10, "mode": "adjusted", "limit": 5,
     "A": [[], [], [], [], [2], [2, 3], [3], [4], [4], [4], [5], [6], [6]]},   # 12 -> 6, cutoff 9 -> 4, cutoff 5 -> {2,3}...
]


def _selftests():
    import copy
    s0, s1, s2 = [copy.deepcopy(s) for s in STATIC]
    # s2: cur=12,last=-1,cutoff=12: A[12]=6 -> cur 6, cutoff max(5,(6+12)//2=9); A[9]=4 -> cur 4, cutoff max(5,5)=5; A[5] in {2,3}
    s2["result"] = 2
    s2b = copy.deepcopy(s2); s2b["result"] = 4
    # from cur=2 (last 4): cutoff max(5,3)=5 -> A[5]: 2 -> stop (2==2) or 3 -> cutoff 5 -> ... finals {2,3}
    out = [(s0, "ok"), (s1, "ok"), (s2, "ok"), (s2b, "loop-fixpoint")]
    c = copy.deepcopy(s0); c["result"] = 3; out.append((c, "not-optimal"))
    c = copy.deepcopy(s0); c["result"] = 0; out.append((c, "interior"))
    c = copy.deepcopy(s1); c["result"] = 3; out.append((c, "loop-fixpoint"))
    c = copy.deepcopy(s1); c["outcome"] = "budget"; out.append((c, "terminates"))
    return out


def run(ctx):
    ctx.rule = ("curves with 5<=n<=60 (adversarial, sampled grid, random families) x {curvature, Menger, DFDT single pass, "
                "DFDT loop, L-method get_knee (Fit x Cost), L-method knee (Fit x Refinement x limit in {4,5,10})}; "
                "non-trivial: the criterion has at least two distinct rank classes over the admissible range")
    ctx.assumptions += numeric.ASSUMPTIONS + [
        "criteria are recomputed by the harness from the stated formulas: uts.gradient.cfd/csd and |f''|/(1+f'^2)^1.5; "
        "|gradient - uts.thresholding.isodata(gradient)| per reachable cutoff; 2|cross|/(product of side lengths); "
        "the two-line error w*sqrt(w*RSS) / w*RSS per part (end-point or least-squares lines) recomputed independently of "
        "lmethod.compute_error on every reachable prefix; a disagreement with compute_error is a DRIFT note",
        "first-versus-last optimiser on ties is not pinned by the property: any member of the noise-merged optimiser set is accepted",
        "L-method: limit >= 4 so that every refined prefix has the 5 points the method needs (limit < 4 is outside the "
        "property's domain n >= 5); prefixes shorter than 5 points pin nothing"]
    ctx.mc("LRefine", "MC_LRefine", need_actions=("LStep", "LEnd", "DStep", "DEnd"))
    ctx.mc("LRefine", "MC_LRefine_unguarded", expect="<temporal>")
    ctx.mc("LRefine", "MC_LRefine_prevguard", expect="<temporal>")     # a 2-cycle guard admits a cycle of length 3
    items = inputs(ctx)
    rec = par.pmap(_record, items)
    cases = [c for c, _ in rec]
    meta = {c["id"]: m for c, m in rec}
    rej = ctx.trace("Trace_Detectors", cases, selftest=_selftests(), chunk=400)
    for c in cases:
        nt = True
        if c["kind"] == "argopt":
            vals = set(v for v in c["rank"][c["lo"]:c["hi"] + 1] if v >= 0)
            nt = len(vals) >= 2
        ctx.count((meta[c["id"]]["points"], str(meta[c["id"]]["what"])), nt)
    for c in cases:
        if "drift" in meta[c["id"]]:
            ctx.note("DRIFT: " + meta[c["id"]]["drift"][:300])
    for cid, vs in rej.items():
        m = meta[cid]
        w = m["what"]
        ctx.violation(vs[0][0], {"kind": "T", "points": m["points"], "what": w, "cid": cid},
                      {"verdict": vs[0][:6], "error": m.get("error")},
                      match="%s:%s" % (vs[0][0], w if isinstance(w, str) else ":".join(str(v) for v in w[:3])))
    ctx.sample({"binding": "T", "call": meta[cases[3]["id"]]["what"], "case": {k: v for k, v in cases[3].items() if k != "id"}})


def replay(ctx, obj):
    c = obj["case"]
    w = c["what"]
    case, m = _record((c.get("cid", "replay"), c["points"], tuple(w) if isinstance(w, list) else w))
    rej = ctx.trace("Trace_Detectors", [case])
    for cid, vs in rej.items():
        ctx.violation(vs[0][0], c, {"verdict": vs[0][:6], "error": m.get("error")})
