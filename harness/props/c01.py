"""C01 - curve simplification always terminates with a well-formed reduction.
M: Rdp.tla and Fixed.tla machines for every oracle (termination, step bounds, well-formedness);
   negative instances reproduce the pinned tree's defects (end-point split, 2-point seed).
T: one recorded event per simplifier call (outcome, loop back-edge count, reduced, removed)
   judged by Trace_Simplify (kind "wf").
   Scale family: the same event for production-size inputs (deep one-sided refinements of 500 .. 6500 points, plain long
   curves up to 10^5 points), judged by Trace_WellFormedScale (the same verdict operator, compact details)."""
import itertools
import random

import numpy as np

from harness import curves, enums, monitor, numeric, par, scale, simpl, static_cases


def _case(cid, P, spec):
    ev = simpl.call(P, spec)
    mult = 1
    if spec["f"] == "min_point_rdp":
        mult = len(spec["ts"]) + 1
    case = {"id": cid, "kind": "wf", "f": spec["f"], "n": len(P), "outcome": ev["outcome"],
            "steps": simpl.steps_of(ev), "mult": mult,
            "reduced": ev.get("reduced", []), "removed": ev.get("removed") or [],
            "integral": bool(ev.get("reduced_integral", True) and ev.get("removed_integral", True)
                             and ev.get("removed") is not None) if ev["outcome"] == "returned" else True}
    return case, ev


def _record(item):
    cid, P, spec = item
    P = np.asarray(P, float)
    case, ev = _case(cid, P, spec)
    return case, {"points": P.tolist(), "spec": spec, "error": ev.get("error")}


def all_specs(P, rng, full=False):
    """configuration space for one curve; full=True is the whole cross product used for adversarial curves."""
    n = len(P)
    out = []
    costs = simpl.COSTS
    for cost in costs:
        ts = [0.01, 0.1, 0.5, 0.9] + simpl.harvest_thresholds(P, cost, rng, 2 if full else 1)
        if cost == "r2":
            ts = [t for t in ts if t <= 1]
        if not full:
            ts = rng.sample(ts, 2)
        for t in ts:
            for d in simpl.DISTANCES:
                out.append({"f": "rdp", "t": t, "distance": d, "cost": cost})
                for o in (simpl.ORDERS if full else [rng.choice(simpl.ORDERS)]):
                    out.append({"f": "grdp", "t": t, "distance": d, "cost": cost, "order": o})
                    ms = range(0, n + 2) if full and n <= 8 else [rng.randint(0, n + 1)]
                    for m in ms:
                        out.append({"f": "mp_grdp", "t": t, "distance": d, "cost": cost, "order": o, "min_points": m})
    for d in simpl.DISTANCES:
        for o in simpl.ORDERS:
            ks = range(0, n + 2) if (full or n <= 8) else sorted(set([0, 1, 2, 3, n - 1, n, n + 1, rng.randint(2, n)]))
            for k in ks:
                out.append({"f": "rdp_fixed", "length": k, "distance": d, "order": o})
    for ts in ([0.01, 0.001, 0.0001], [0.5, 0.1], [0.05]):
        for m in (range(0, n + 2) if full and n <= 8 else [rng.randint(0, n + 1)]):
            out.append({"f": "min_point_rdp", "ts": ts, "min_points": m})
    return out


def inputs(ctx):
    rng = ctx.rng
    items = []
    for ci, P in enumerate(curves.adversarial()):
        for si, spec in enumerate(all_specs(P, rng, full=True)):
            items.append(("adv%d-%d" % (ci, si), P.tolist(), spec))
    grid = []
    for n in (3, 4, 5, 6):
        grid += curves.grid_curves(n, 3 if n < 6 else 2, spacings=(1, 2, 3))
    if ctx.quick:
        grid = rng.sample(grid, 300)
    for ci, P in enumerate(grid):
        specs = all_specs(P, rng)
        for si, spec in enumerate(rng.sample(specs, min(len(specs), 6 if ctx.quick else 12))):
            items.append(("grid%d-%d" % (ci, si), P.tolist(), simpl.maybe_int(rng, P, spec)))
    rnd = [curves.random_curve(rng, 3, 60 if ctx.quick else 200) for _ in range(150 if ctx.quick else 1500)]
    rnd += curves.trace_windows(rng, 8 if ctx.quick else 60, 20, 120, names=("web0_reduced.csv", "usr0.csv", "web2.csv"))
    rnd += [curves.clipped_curve(rng) for _ in range(40 if ctx.quick else 400)]
    # the same kinds of curves in tiny units on BOTH axes (2^-40, exact): chords far shorter than any absolute epsilon
    rnd += [curves.random_curve(rng, 3, 40) * 2.0 ** -40 for _ in range(20 if ctx.quick else 200)]
    if not ctx.quick:
        rnd.append(curves.bundled("web0_reduced.csv"))
    for ci, P in enumerate(rnd):
        specs = all_specs(P, rng)
        for si, spec in enumerate(rng.sample(specs, min(len(specs), 6))):
            items.append(("rnd%d-%d" % (ci, si), P.tolist(), simpl.maybe_int(rng, P, spec)))
    # extreme magnitudes on the y axis (the quantifier's "huge/tiny magnitudes"): finite ordinates whose squares, or sums of
    # squares, overflow or underflow binary64 - every simplifier must still RETURN a well-formed reduction (round 17: a
    # cost summed with math.fsum raises OverflowError where np.sum saturates)
    import math
    bump = np.column_stack([np.arange(9.0), np.tile([0.0, 1.0, 0.0], 3)])
    ext = [(bump, sc) for sc in (4e153, 6e153, 9e153)]
    for _ in range(16 if ctx.quick else 160):
        ext.append((curves.random_curve(rng, 3, 30), rng.choice([1e100, 4e153, 9e153, 1.3e154, 1e200, 1e300, 1e-200, 1e-300])))
    for ei, (P, sc) in enumerate(ext):
        Q = np.array(P, float)
        Q[:, 1] = Q[:, 1] / max(1.0, float(np.max(np.abs(Q[:, 1])))) * sc
        if not np.all(np.isfinite(Q)):
            continue
        specs = [sp for sp in all_specs(Q, rng) if "t" not in sp or (math.isfinite(sp["t"]) and sp["t"] > 0 and (sp["cost"] != "r2" or sp["t"] <= 1))]
        pick = rng.sample(specs, min(len(specs), 8))
        if P is bump:
            pick += [{"f": "grdp", "t": 0.9, "distance": d, "cost": "r2", "order": o} for d in simpl.DISTANCES for o in simpl.ORDERS[:1]]
            pick += [{"f": "mp_grdp", "t": 0.9, "distance": simpl.DISTANCES[0], "cost": "r2", "order": simpl.ORDERS[0], "min_points": m} for m in (0, 5)]
            pick += [{"f": "rdp", "t": 0.9, "distance": simpl.DISTANCES[0], "cost": "r2"}]
        for si, spec in enumerate(pick):
            items.append(("ext%d-%d" % (ei, si), Q.tolist(), spec))
    # long curves (size-dependent code paths), a few calls each
    for li, n in enumerate([1200, 3000] if ctx.quick else [1200, 3000, 6000, 10000]):
        x = np.arange(1, n + 1, dtype=float)
        y = 100.0 / np.sqrt(x) * np.array([1.0 + 0.02 * rng.random() for _ in range(n)])
        P = curves.mk(x, y)
        for f in ("rdp", "grdp", "rdp_fixed", "mp_grdp", "min_point_rdp"):
            spec = simpl.random_spec(rng, P, f)
            if f in ("rdp", "grdp", "mp_grdp"):
                spec["t"] = rng.choice([0.05, 0.01]) if spec.get("cost") != "r2" else 0.95
            if "length" in spec:
                spec["length"] = rng.randint(5, 60)
            if "min_points" in spec:
                spec["min_points"] = rng.randint(5, 60)
            items.append(("long%d-%s" % (li, f), P.tolist(), spec))
    return items


# ---------------------------------------------------------------- scale family (production-size inputs)
SCALE_MODULE = "Trace_WellFormedScale"
DEEP_SHAPES = ("zigzag", "spikes", "sawtooth", "stairs_grow")
LONG_SHAPES = ("mrc", "convex", "stairs", "valley", "elbow", "noisy", "walk")
FINE = [("smape", 0.01), ("rpd", 0.01), ("rmspe", 0.01), ("rmsle", 0.01), ("r2", 0.99), ("r2", 0.999), ("rpd", 0.001)]
COARSE = [("smape", 0.1), ("smape", 0.5), ("rpd", 0.1), ("rmspe", 0.5), ("rmsle", 0.1), ("r2", 0.5), ("r2", 0.9)]


def _sawtooth(n, period):
    """fill / flush ramps whose amplitude grows slowly to the right (the witness shape of the bounded-stack example)"""
    i = np.arange(n)
    return scale._xy((i % period) * (1.0 + (i // period) / (n / float(period))))


def _noisy(n, seed, amp):
    """power-law decay with multiplicative noise (the shape of the check's older `long` curves), x = 0..n-1"""
    x = np.arange(1, n + 1, dtype=float)
    return scale._xy(100.0 / np.sqrt(x) * (1.0 + amp * np.random.default_rng(seed).random(n)))


def _walk(n, seed, floor):
    """integer random walk shifted to y >= floor: no trend, thousands of retained points at fine thresholds"""
    y = np.cumsum(np.random.default_rng(seed).integers(-3, 4, n)).astype(float)
    return scale._xy(y - y.min() + floor)


def build(d):
    """the curve of a scale descriptor (a deterministic function of the descriptor: replays rebuild it)"""
    s, n = d["shape"], d["n"]
    rng = random.Random(d.get("seed", 0))
    if s == "zigzag":
        P = scale.zigzag(n, growth=d["growth"])
    elif s == "spikes":
        P = scale.spikes(n, period=d["period"])
    elif s == "sawtooth":
        P = _sawtooth(n, d["period"])
    elif s == "stairs_grow":
        P = scale.staircase(n, d["steps"], grow=True)
    elif s == "stairs":
        P = scale.staircase(n, d["steps"], rng=rng)
    elif s == "mrc":
        P = scale.mrc(n, rng, knees=d["knees"])
    elif s == "convex":
        P = scale.convex_pl(n, d["corners"])
    elif s == "valley":
        P = scale.valley(n, rng)
    elif s == "elbow":
        P = scale.elbow(n, d["corner"], d["s1"], d["s2"])
    elif s == "noisy":
        P = _noisy(n, d["seed"], d["amp"])
    elif s == "walk":
        P = _walk(n, d["seed"], d["floor"])
    else:
        raise ValueError(s)
    if d.get("xmul", 1.0) != 1.0:           # dyadic factor: x stays exact and strictly increasing
        P = P.copy()
        P[:, 0] *= d["xmul"]
    assert len(P) == n and np.all(np.isfinite(P)) and np.all(np.diff(P[:, 0]) > 0) and P[:, 1].min() >= 0
    return np.ascontiguousarray(P)


def _resolve(P, spec):
    """grdp-family calls at scale.  The global variants recompute the global cost over all retained segments after every
    refinement, so a call that stops after k refinements costs ~k^2/2 Python-level iterations, and k depends on the threshold
    in a way nobody can predict (10^5-point random walk, rmsle 0.01: 19420 points, six minutes).  Every t > 0 is inside the
    property's quantifier, so the threshold is CHOSEN: the global cost of the library's own fixed-size chain at length K
    (`pilot`), nudged so that the chain member of length K is accepted - the call then stops after at most K refinements.
    If the library disagrees with itself the call merely takes longer; nothing is judged from the pilot."""
    spec = dict(spec)
    K = spec.pop("pilot", None)
    if spec.get("dtype") == "int64" and not simpl.integral(P):
        del spec["dtype"]
    if K is None:
        return spec
    import kneeliverse.evaluation as evaluation
    import kneeliverse.metrics as metrics
    cost = spec.get("cost", "smape")
    base = {"f": "rdp_fixed", "length": K, "distance": spec.get("distance", "shortest"), "order": spec.get("order", "segment")}
    if "dtype" in spec:
        base["dtype"] = spec["dtype"]
    ev = simpl.call(P, base)
    if ev["outcome"] != "returned" or len(ev["reduced"]) < 2:
        return None
    Q = np.asarray(P).astype(np.int64) if spec.get("dtype") == "int64" else P
    out, c, _ = monitor.call(evaluation.compute_global_cost, (Q, np.asarray(ev["reduced"]), enums.pick(metrics.Metrics, cost)),
                             budget=monitor.quad(len(P), 16), wall=600)
    if out != "returned":
        return None
    c = float(c)
    t = c * (1 - 1e-9) if cost == "r2" else c * (1 + 1e-9)
    if c == 0 and cost != "r2":          # the chain member fits exactly (piecewise-linear shapes): any t > 0 accepts it
        t = 0.001
    if not np.isfinite(t) or t <= 0 or (cost == "r2" and t > 1):
        return None
    if spec["f"] == "min_point_rdp":
        spec["ts"] = [t * m for m in spec.pop("tmul")]
    else:
        spec["t"] = t
    return spec


def _record_scale(item):
    cid, d, spec = item
    P = build(d)
    spec = _resolve(P, spec)
    if spec is None:
        return None, {"curve": d, "spec": item[2], "error": "pilot gave no usable threshold"}
    case, ev = _case(cid, P, spec)
    return case, {"curve": d, "spec": spec, "error": ev.get("error")}


def _deep_desc(rng, shape, n):
    if shape == "zigzag":
        return {"shape": shape, "n": n, "growth": rng.choice([1.0 / 64, 1.0 / 1024, 0.25])}
    if shape == "spikes":
        return {"shape": shape, "n": n, "period": rng.choice([3, 4, 8])}
    if shape == "sawtooth":
        return {"shape": shape, "n": n, "period": rng.choice([3, 5, 8])}
    return {"shape": shape, "n": n, "steps": n // rng.choice([4, 8])}


def _long_desc(rng, shape, n):
    d = {"shape": shape, "n": n, "seed": rng.randrange(2 ** 31), "xmul": rng.choice([1.0, 1.0, 0.25, 8.0])}
    if shape == "stairs":
        d["steps"] = rng.choice([12, 50, 300, 1500])
    elif shape == "mrc":
        d["knees"] = rng.choice([4, 12, 40])
    elif shape == "convex":
        d["corners"] = rng.choice([3, 40, 400])
    elif shape == "elbow":
        d.update(corner=rng.randrange(n // 8, n - n // 8), s1=-rng.choice([4.0, 1.0, 0.5]), s2=-rng.choice([0.25, 0.0625, 0.0]))
    elif shape == "noisy":
        d["amp"] = rng.choice([0.02, 0.2])
    elif shape == "walk":
        d["floor"] = rng.choice([0.0, 64.0])
    return d


def _global_spec(rng, f, K):
    """a grdp-family call that stops after at most K refinements (see _resolve)"""
    if f == "min_point_rdp":        # default cost / order / distance inside; every listed threshold is >= the pilot's
        tm = rng.sample([1.0, 4.0, 16.0, 64.0], rng.randint(1, 3))
        return {"f": f, "pilot": K, "tmul": tm, "ts": None, "min_points": rng.choice([0, 5, K // 2, K, K + rng.randint(1, 900)])}
    spec = {"f": f, "pilot": K, "t": None, "distance": rng.choice(simpl.DISTANCES), "cost": rng.choice(simpl.COSTS),
            "order": rng.choice(simpl.ORDERS)}
    if f == "mp_grdp":
        spec["min_points"] = rng.choice([0, 7, K // 2, K + rng.randint(1, 900)])
    return spec


def _maybe_int(rng, d, spec):
    if d["shape"] in ("convex", "stairs", "stairs_grow", "valley", "walk") and d.get("xmul", 1.0) >= 1.0 and rng.random() < 0.3:
        spec = dict(spec, dtype="int64")
    return spec


def scale_inputs(ctx):
    """(id, curve descriptor, spec) for the production-size calls; returns the items and a coverage summary"""
    rng = ctx.rng
    q = ctx.quick
    items = []
    # (a) deep ONE-SIDED refinements: the farthest point of every prefix is near its right end, so threshold rdp keeps one
    #     pending sibling per level (hundreds to thousands at once) and performs ~2n refinement steps; the priority stacks of
    #     the fixed-size / global variants hold hundreds of splittable segments
    deep_sizes = scale.sizes(ctx, lo=500, hi=6500, k_quick=3, k_thorough=6)
    if not q:
        deep_sizes = sorted(set(deep_sizes) | {6000 + rng.randrange(1, 500)})
    for n in deep_sizes:
        for shape in DEEP_SHAPES:
            d = _deep_desc(rng, shape, n)
            tag = "deep-%s-%d" % (shape, n)
            for k, dist in enumerate(simpl.DISTANCES * (1 if q else 2)):
                cost, t = rng.choice(FINE)
                items.append(("%s-rdp%d" % (tag, k), d, {"f": "rdp", "t": t, "distance": dist, "cost": cost}))
            cost, t = rng.choice(COARSE if q else COARSE + FINE)
            items.append((tag + "-rdpc", d, {"f": "rdp", "t": t, "distance": rng.choice(simpl.DISTANCES), "cost": cost}))
            L = rng.choice([n // 2, n // 3, n // 3] + ([n - 1, n, n + 5] if n <= 2200 else []))
            items.append((tag + "-fixed", d, _maybe_int(rng, d, {"f": "rdp_fixed", "length": L, "distance": rng.choice(simpl.DISTANCES),
                                                                 "order": rng.choice(simpl.ORDERS)})))
            f = rng.choice(["grdp", "mp_grdp", "min_point_rdp"])
            if n <= (1300 if q else 2200):     # full refinement is affordable: fixed (fine) thresholds
                cost, t = rng.choice(FINE)
                spec = {"f": f, "t": t, "distance": rng.choice(simpl.DISTANCES), "cost": cost, "order": rng.choice(simpl.ORDERS)}
                if f == "mp_grdp":
                    spec["min_points"] = rng.choice([0, n // 2, n + 1])
                if f == "min_point_rdp":
                    spec = {"f": f, "ts": rng.choice([[0.01, 0.001], [0.05], [0.5, 0.1, 0.0001]]), "min_points": rng.choice([5, n // 2, n])}
            else:
                spec = _global_spec(rng, f, rng.randint(300, 1200 if q else 1800))
            items.append(("%s-%s" % (tag, f), d, _maybe_int(rng, d, spec)))
    # (b) plain long curves through all five simplifiers
    long_sizes = scale.sizes(ctx, lo=1000, hi=110000, k_quick=3, k_thorough=8)
    gi = 0
    for n in long_sizes:
        for shape in LONG_SHAPES:
            d = _long_desc(rng, shape, n)
            tag = "long-%s-%d" % (shape, n)
            # threshold rdp: dense results (10^4 .. 10^5 retained points) are requested explicitly below, not here
            noisy_shape = shape in ("noisy", "walk", "mrc")
            pool = COARSE + FINE
            if noisy_shape and n > 12000:      # (noise has a low R2 at every scale: dense whatever the threshold)
                pool = [c for c in COARSE if not (shape in ("walk", "noisy") and c[0] == "r2")]
            for k in range(1 if q else 2):
                cost, t = rng.choice(pool)
                items.append(("%s-rdp%d" % (tag, k), d, _maybe_int(rng, d, {"f": "rdp", "t": t, "distance": rng.choice(simpl.DISTANCES),
                                                                              "cost": cost})))
            Ls = [rng.choice([2, 3]), rng.randint(4, 60), rng.randint(300, 1500)] + ([] if q else [rng.randint(2000, 4500)])
            for k, L in enumerate(rng.sample(Ls, 1 if q else 2)):
                items.append(("%s-fixed%d" % (tag, k), d, _maybe_int(rng, d, {"f": "rdp_fixed", "length": L,
                                                                                "distance": rng.choice(simpl.DISTANCES),
                                                                                "order": rng.choice(simpl.ORDERS)})))
            f = ("grdp", "mp_grdp", "min_point_rdp")[gi % 3]
            gi += 1
            items.append(("%s-%s" % (tag, f), d, _maybe_int(rng, d, _global_spec(rng, f, rng.randint(150, 900 if q else 2500)))))
    # (c) dense results: tens of thousands of retained indices / removed rows and refinement steps from ONE call
    dense_sizes = [33001 + rng.randrange(0, 7000)] if q else [10001 + rng.randrange(0, 3000), 16385 + rng.randrange(0, 4000),
                                                              32769 + rng.randrange(0, 4000), 65537 + rng.randrange(0, 9000)]
    for n in dense_sizes:
        shape = rng.choice(["noisy", "walk"])
        d = _long_desc(rng, shape, n)
        cost, t = rng.choice([("rpd", 0.001), ("r2", 0.999), ("smape", 0.001), ("rpd", 0.0001)])
        items.append(("dense-%s-%d" % (shape, n), d, {"f": "rdp", "t": t, "distance": rng.choice(simpl.DISTANCES), "cost": cost}))
    seen = {}
    for k, it in enumerate(items):          # ids are unique by construction; make sure of it
        seen[it[0]] = seen.get(it[0], 0) + 1
        if seen[it[0]] > 1:
            items[k] = ("%s~%d" % (it[0], seen[it[0]]),) + tuple(it[1:])
    # slowest first (pmap hands them out one by one)
    weight = {"rdp": 1.0, "rdp_fixed": 1.0, "grdp": 4.0, "mp_grdp": 4.0, "min_point_rdp": 6.0}
    items.sort(key=lambda it: -(it[1]["n"] * weight[it[2]["f"]] * (8.0 if it[0].startswith("deep") else 1.0)))
    return items, {"deep_sizes": deep_sizes, "long_sizes": long_sizes, "dense_sizes": dense_sizes,
                   "deep_shapes": list(DEEP_SHAPES), "long_shapes": list(LONG_SHAPES)}


def _scale_selftests():
    """static cases for the scale validator (independent of the code under test): the hand-checkable small case and its
    corruptions, plus a synthetic 3001-index reduction of a 9001-point curve, intact and cut the way a bounded work stack
    cuts it (the tail of the index list is missing, the last index is still n-1)"""
    good = static_cases.get("C01")
    S = list(range(0, 9001, 3))
    big = dict(good, n=9001, steps=6000, reduced=S, removed=[[a, 2] for a in S[:-1]])
    cutS = S[:256] + [9000]
    cut = dict(big, reduced=cutS, removed=[[a, 2] for a in cutS[:-2]] + [[cutS[-2], 0]])
    wrap = dict(big, reduced=S[:2000] + [v - 65536 for v in S[2000:]])          # a 16-bit index wrapping around
    return [(good, "ok"), (big, "ok"),
            (dict(good, reduced=good["reduced"][:-1] + [good["reduced"][-2]]), None),
            (dict(good, outcome="budget"), "terminates"),
            (dict(good, removed=[[r[0], r[1] + 1] for r in good["removed"]]), "removed-counts"),
            (dict(good, steps=10 * good["n"]), "step-bound"),
            (cut, "removed-counts"), (wrap, "endpoints"),
            (dict(big, removed=big["removed"][:-1]), "removed-rows"),
            (dict(big, reduced=S[:1500] + [S[1499]] + S[1501:]), "increasing")]


def _judge_scale(ctx, cases, selftest=None):
    """Trace_WellFormedScale over the recorded cases, in chunks of roughly equal JSON size (<= ~2 MB each)"""
    cases = sorted(cases, key=lambda c: -len(c["reduced"]))
    total = sum(len(c["reduced"]) for c in cases)
    k = max(1, -(-total // 60000))
    groups = [cases[g::k] for g in range(k)]
    flat = [c for g in groups for c in g]
    return ctx.trace(SCALE_MODULE, flat, selftest=selftest, chunk=max(1, -(-(len(flat) + len(selftest or [])) // k)))


def run_scale(ctx):
    import time
    t0 = time.time()
    items, cover = scale_inputs(ctx)
    rec = par.pmap(_record_scale, items, chunksize=1)
    meta = {it[0]: m for it, (c, m) in zip(items, rec)}
    cases = [c for c, _ in rec if c is not None]
    skipped = [it[0] for it, (c, _) in zip(items, rec) if c is None]
    # JSON budget: ~20 bytes per retained index (index + removed row)
    budget = 200000 if ctx.quick else 600000
    judged, over, used = [], [], 0
    for c in cases:
        if used + len(c["reduced"]) > budget and len(c["reduced"]) > 2000:
            over.append(c["id"])
            continue
        used += len(c["reduced"])
        judged.append(c)
    rej = _judge_scale(ctx, judged, selftest=_scale_selftests())
    byf = {}
    for c in judged:
        m = meta[c["id"]]
        ctx.count((c["f"], m["curve"], m["spec"]), c["n"] >= 3 and c["outcome"] == "returned")
        byf[c["f"]] = byf.get(c["f"], 0) + 1
    for cid, vs in rej.items():
        m = meta[cid]
        ctx.violation(vs[0][0], {"kind": "scale", "curve": m["curve"], "spec": m["spec"]}, {"verdict": vs[0], "error": m["error"]})
    cover.update(calls=len(judged), by_function=byf, retained_indices_judged=used,
                 max_retained=max([len(c["reduced"]) for c in judged] or [0]),
                 max_refinement_steps=max([c["steps"] for c in judged] or [0]),
                 pilot_without_threshold=len(skipped), over_json_budget=len(over), wall_s=round(time.time() - t0, 1))
    ctx.extra["scale"] = cover
    if skipped:
        ctx.note("scale: %d grdp-family calls not made (the pilot chain gave no usable threshold: non-finite or zero global "
                 "cost), e.g. %s" % (len(skipped), skipped[:3]))
    if over:
        ctx.note("scale: %d recorded results beyond the JSON budget were not judged: %s" % (len(over), over[:5]))
    big = [c for c in judged if len(c["reduced"]) > 256]
    if big:
        ctx.sample({"binding": "T", "family": "scale", "case": big[len(big) // 2], "call": meta[big[len(big) // 2]["id"]]})


def model_checks(ctx):
    ctx.mc("Rdp", "MC_Rdp", need_actions=("RdpAccept", "RdpSplit", "Finish"))
    ctx.mc("Rdp", "MC_Rdp_buggy", expect="StepBound")
    ctx.mc("Fixed", "MC_Fixed" if ctx.quick else "MC_Fixed_6",
           need_actions=("ChainStep", "Start", "GInit", "GrdpStep", "GrdpEnd", "MpNext", "FixedStep", "FixedEnd"),
           timeout=1800)
    ctx.mc("Fixed", "MC_Fixed_buggy", expect="WellFormed")
    # the implementation-shaped machine refines the abstraction whose step bound is proved for EVERY n (TLAPS, RdpProof_proofs.tla)
    ctx.mc("RdpRefines", "MC_RdpRefines", need_actions=("RdpAccept", "RdpSplit", "Finish"))
    ctx.mc("RdpRefines", "MC_RdpRefines_neg", expect="AbsInv")        # an end-point split is not a step of the proved abstraction
    if not ctx.quick:
        from harness import proofs
        proofs.recheck(ctx, ["RdpProof_proofs"])


def run(ctx):
    from harness import growth
    growth.safe(ctx, growth.rdp_steps)
    ctx.rule = ("T: adversarial curves x the full configuration product; sampled grid curves (n<=6, y<=3, spacings 1..3), "
                "random families, bundled-trace windows x sampled configurations of the 5 simplifiers. "
                "non-trivial: the call refines at least once (a point beyond the two ends is retained or dropped) "
                "and the curve has n >= 3. Extreme magnitudes: ordinates scaled to 1e100..1e300 and 1e-200..1e-300 "
                "(squares or their sums overflow / underflow): every simplifier must still return a well-formed reduction. "
                "Scale family: deep one-sided refinements (zigzag / spikes / sawtooth / growing staircase, 500..6500 points, "
                "hundreds to thousands of pending segments) and plain long curves (7 shapes, sizes just above 1024 .. 10^5) "
                "through the 5 simplifiers, plus dense threshold-rdp results (10^4..10^5 retained indices); every clause of "
                "the property is table-free and is judged on the complete result by Trace_WellFormedScale")
    ctx.assumptions += numeric.ASSUMPTIONS + [
        "step counts are loop back-edges of the simplifier's refinement loop (sys.monitoring), judged against "
        "2 x the bound proved in MC_Rdp/MC_Fixed + 4",
        "hard back-edge budget 400n+4000 and a 20 s watchdog turn a hang into a recorded outcome"]
    model_checks(ctx)
    items = inputs(ctx)
    rec = par.pmap(_record, items)
    cases = [c for c, _ in rec]
    meta = {c["id"]: m for c, m in rec}
    good = static_cases.get("C01")
    c1 = dict(good, reduced=good["reduced"][:-1] + [good["reduced"][-2]])     # duplicate index
    c2 = dict(good, outcome="budget")
    c3 = dict(good, removed=[[r[0], r[1] + 1] for r in good["removed"]])
    c4 = dict(good, steps=10 * good["n"])
    rej = ctx.trace("Trace_Simplify", cases, selftest=[(good, "ok"), (c1, None), (c2, "terminates"),
                                                       (c3, "removed-counts"), (c4, "step-bound")])
    for c in cases:
        ctx.count((c["f"], meta[c["id"]]["points"], meta[c["id"]]["spec"]), c["n"] >= 3 and c["outcome"] == "returned")
    for cid, vs in rej.items():
        m = meta[cid]
        ctx.violation(vs[0][0], {"kind": "T", "points": m["points"], "spec": m["spec"]},
                      {"verdict": vs[0], "error": m["error"]})
    ctx.sample({"binding": "T", "case": cases[7], "call": meta[cases[7]["id"]]})
    ctx.sample({"binding": "T", "case": cases[-5], "call": meta[cases[-5]["id"]]})
    run_scale(ctx)


def replay(ctx, obj):
    c = obj["case"]
    if c.get("kind") == "scale":
        case, m = _record_scale(("replay", c["curve"], c["spec"]))
        if case is None:
            ctx.note("replay: " + m["error"])
            return
        for cid, vs in _judge_scale(ctx, [case]).items():
            ctx.violation(vs[0][0], c, {"verdict": vs[0], "error": m["error"]})
        return
    case, m = _record(("replay", c["points"], c["spec"]))
    rej = ctx.trace("Trace_Simplify", [case])
    for cid, vs in rej.items():
        ctx.violation(vs[0][0], c, {"verdict": vs[0], "error": m["error"]})
