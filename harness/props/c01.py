"""C01 - curve simplification always terminates with a well-formed reduction.
M: Rdp.tla and Fixed.tla machines for every oracle (termination, step bounds, well-formedness);
   negative instances reproduce the pinned tree's defects (end-point split, 2-point seed).
T: one recorded event per simplifier call (outcome, loop back-edge count, reduced, removed)
   judged by Trace_Simplify (kind "wf")."""
import itertools

import numpy as np

from harness import curves, numeric, par, simpl, static_cases


def _record(item):
    cid, P, spec = item
    P = np.asarray(P, float)
    ev = simpl.call(P, spec)
    mult = 1
    if spec["f"] == "min_point_rdp":
        mult = len(spec["ts"]) + 1
    case = {"id": cid, "kind": "wf", "f": spec["f"], "n": len(P), "outcome": ev["outcome"],
            "steps": simpl.steps_of(ev), "mult": mult,
            "reduced": ev.get("reduced", []), "removed": ev.get("removed") or [],
            "integral": bool(ev.get("reduced_integral", True) and ev.get("removed_integral", True)
                             and ev.get("removed") is not None) if ev["outcome"] == "returned" else True}
    return case, {"points": P.tolist(), "spec": spec, "error": ev.get("error")}


def all_specs(P, rng, full=False):
    """configuration space for one curve; full=True is the whole cross product used for adversarial curves."""
    n = len(P)
    out = []
    costs = simpl.COSTS
    for cost in costs:
        ts = [0.01, 0.1, 0.5, 0.9] + simpl.harvest_thresholds(P, cost, rng, 2 if full else 1)
        if cost == "r2":
            ts = [t for t in ts if t <= 1]
        if not full:
            ts = rng.sample(ts, 2)
        for t in ts:
            for d in simpl.DISTANCES:
                out.append({"f": "rdp", "t": t, "distance": d, "cost": cost})
                for o in (simpl.ORDERS if full else [rng.choice(simpl.ORDERS)]):
                    out.append({"f": "grdp", "t": t, "distance": d, "cost": cost, "order": o})
                    ms = range(0, n + 2) if full and n <= 8 else [rng.randint(0, n + 1)]
                    for m in ms:
                        out.append({"f": "mp_grdp", "t": t, "distance": d, "cost": cost, "order": o, "min_points": m})
    for d in simpl.DISTANCES:
        for o in simpl.ORDERS:
            ks = range(0, n + 2) if (full or n <= 8) else sorted(set([0, 1, 2, 3, n - 1, n, n + 1, rng.randint(2, n)]))
            for k in ks:
                out.append({"f": "rdp_fixed", "length": k, "distance": d, "order": o})
    for ts in ([0.01, 0.001, 0.0001], [0.5, 0.1], [0.05]):
        for m in (range(0, n + 2) if full and n <= 8 else [rng.randint(0, n + 1)]):
            out.append({"f": "min_point_rdp", "ts": ts, "min_points": m})
    return out


def inputs(ctx):
    rng = ctx.rng
    items = []
    for ci, P in enumerate(curves.adversarial()):
        for si, spec in enumerate(all_specs(P, rng, full=True)):
            items.append(("adv%d-%d" % (ci, si), P.tolist(), spec))
    grid = []
    for n in (3, 4, 5, 6):
        grid += curves.grid_curves(n, 3 if n < 6 else 2, spacings=(1, 2, 3))
    if ctx.quick:
        grid = rng.sample(grid, 300)
    for ci, P in enumerate(grid):
        specs = all_specs(P, rng)
        for si, spec in enumerate(rng.sample(specs, min(len(specs), 6 if ctx.quick else 12))):
            items.append(("grid%d-%d" % (ci, si), P.tolist(), simpl.maybe_int(rng, P, spec)))
    rnd = [curves.random_curve(rng, 3, 60 if ctx.quick else 200) for _ in range(150 if ctx.quick else 1500)]
    rnd += curves.trace_windows(rng, 8 if ctx.quick else 60, 20, 120, names=("web0_reduced.csv", "usr0.csv", "web2.csv"))
    rnd += [curves.clipped_curve(rng) for _ in range(40 if ctx.quick else 400)]
    # the same kinds of curves in tiny units on BOTH axes (2^-40, exact): chords far shorter than any absolute epsilon
    rnd += [curves.random_curve(rng, 3, 40) * 2.0 ** -40 for _ in range(20 if ctx.quick else 200)]
    if not ctx.quick:
        rnd.append(curves.bundled("web0_reduced.csv"))
    for ci, P in enumerate(rnd):
        specs = all_specs(P, rng)
        for si, spec in enumerate(rng.sample(specs, min(len(specs), 6))):
            items.append(("rnd%d-%d" % (ci, si), P.tolist(), simpl.maybe_int(rng, P, spec)))
    # long curves (size-dependent code paths), a few calls each
    for li, n in enumerate([1200, 3000] if ctx.quick else [1200, 3000, 6000, 10000]):
        x = np.arange(1, n + 1, dtype=float)
        y = 100.0 / np.sqrt(x) * np.array([1.0 + 0.02 * rng.random() for _ in range(n)])
        P = curves.mk(x, y)
        for f in ("rdp", "grdp", "rdp_fixed", "mp_grdp", "min_point_rdp"):
            spec = simpl.random_spec(rng, P, f)
            if f in ("rdp", "grdp", "mp_grdp"):
                spec["t"] = rng.choice([0.05, 0.01]) if spec.get("cost") != "r2" else 0.95
            if "length" in spec:
                spec["length"] = rng.randint(5, 60)
            if "min_points" in spec:
                spec["min_points"] = rng.randint(5, 60)
            items.append(("long%d-%s" % (li, f), P.tolist(), spec))
    return items


def model_checks(ctx):
    ctx.mc("Rdp", "MC_Rdp", need_actions=("RdpAccept", "RdpSplit", "Finish"))
    ctx.mc("Rdp", "MC_Rdp_buggy", expect="StepBound")
    ctx.mc("Fixed", "MC_Fixed" if ctx.quick else "MC_Fixed_6",
           need_actions=("ChainStep", "Start", "GInit", "GrdpStep", "GrdpEnd", "MpNext", "FixedStep", "FixedEnd"),
           timeout=1800)
    ctx.mc("Fixed", "MC_Fixed_buggy", expect="WellFormed")
    # the implementation-shaped machine refines the abstraction whose step bound is proved for EVERY n (TLAPS, RdpProof_proofs.tla)
    ctx.mc("RdpRefines", "MC_RdpRefines", need_actions=("RdpAccept", "RdpSplit", "Finish"))
    ctx.mc("RdpRefines", "MC_RdpRefines_neg", expect="AbsInv")        # an end-point split is not a step of the proved abstraction
    if not ctx.quick:
        from harness import proofs
        proofs.recheck(ctx, ["RdpProof_proofs"])


def run(ctx):
    from harness import growth
    growth.safe(ctx, growth.rdp_steps)
    ctx.rule = ("T: adversarial curves x the full configuration product; sampled grid curves (n<=6, y<=3, spacings 1..3), "
                "random families, bundled-trace windows x sampled configurations of the 5 simplifiers. "
                "non-trivial: the call refines at least once (a point beyond the two ends is retained or dropped) "
                "and the curve has n >= 3")
    ctx.assumptions += numeric.ASSUMPTIONS + [
        "step counts are loop back-edges of the simplifier's refinement loop (sys.monitoring), judged against "
        "2 x the bound proved in MC_Rdp/MC_Fixed + 4",
        "hard back-edge budget 400n+4000 and a 20 s watchdog turn a hang into a recorded outcome"]
    model_checks(ctx)
    items = inputs(ctx)
    rec = par.pmap(_record, items)
    cases = [c for c, _ in rec]
    meta = {c["id"]: m for c, m in rec}
    good = static_cases.get("C01")
    c1 = dict(good, reduced=good["reduced"][:-1] + [good["reduced"][-2]])     # duplicate index
    c2 = dict(good, outcome="budget")
    c3 = dict(good, removed=[[r[0], r[1] + 1] for r in good["removed"]])
    c4 = dict(good, steps=10 * good["n"])
    rej = ctx.trace("Trace_Simplify", cases, selftest=[(good, "ok"), (c1, None), (c2, "terminates"),
                                                       (c3, "removed-counts"), (c4, "step-bound")])
    for c in cases:
        ctx.count((c["f"], meta[c["id"]]["points"], meta[c["id"]]["spec"]), c["n"] >= 3 and c["outcome"] == "returned")
    for cid, vs in rej.items():
        m = meta[cid]
        ctx.violation(vs[0][0], {"kind": "T", "points": m["points"], "spec": m["spec"]},
                      {"verdict": vs[0], "error": m["error"]})
    ctx.sample({"binding": "T", "case": cases[7], "call": meta[cases[7]["id"]]})
    ctx.sample({"binding": "T", "case": cases[-5], "call": meta[cases[-5]["id"]]})


def replay(ctx, obj):
    c = obj["case"]
    case, m = _record(("replay", c["points"], c["spec"]))
    rej = ctx.trace("Trace_Simplify", [case])
    for cid, vs in rej.items():
        ctx.violation(vs[0][0], c, {"verdict": vs[0], "error": m["error"]})
