"""C07 - reduced-space indices map back to exactly the original indices.
M: Mapping.tla machine = MapSpec over the whole bounded structure space (MC_Mapping).
G: the same module with Emit=TRUE generates every (reduction, row order, position list) behaviour,
   replayed into rdp.compute_removed_points and rdp.mapping.
T: reductions recorded from the five simplifiers on real-valued curves, judged by Trace_Mapping.
S: the "scale" family - the same clauses on curves of 257 .. 110000 points (reductions returned by the five simplifiers,
   index sets handed to compute_removed_points, up to > 65536 retained indices), judged by Trace_MappingScale."""
import numpy as np

from harness import curves, enums, monitor, numeric, par, scale, simpl, static_cases


def _replay_line(b):
    """One generated behaviour -> list of (clause, detail) mismatches against the real functions."""
    import kneeliverse.rdp as rdp
    bad = []
    n = b["n"]
    reduced = np.array(b["reduced"])
    rows = b["removed"]
    P = np.column_stack([np.arange(n, dtype=float), (np.arange(n) * 7 % 5).astype(float)])
    try:
        cp = rdp.compute_removed_points(P, reduced)
        exp_tbl = sorted(rows)
        got_tbl = [[int(a), int(c)] for a, c in np.asarray(cp).tolist()]
        if got_tbl != exp_tbl:
            bad.append(("removed-table-agrees", {"got": got_tbl, "expected": exp_tbl}))
    except Exception as ex:
        bad.append(("removed-table-agrees", {"raised": repr(ex)}))
    idxs = np.array(b["idxs"], dtype=int)
    for dtype in (int, float):
        removed = np.array(rows, dtype=dtype)
        try:
            got = rdp.mapping(idxs, reduced, removed, sorted=b["sorted"])
            got = [int(v) for v in np.asarray(got).tolist()]
            if got != list(b["expected"]):
                bad.append(("mapping-equals-reduced" if b["sorted"] else "unsorted-rows",
                            {"got": got, "expected": b["expected"], "dtype": dtype.__name__}))
        except Exception as ex:
            bad.append(("mapping-equals-reduced", {"raised": repr(ex), "dtype": dtype.__name__}))
    return bad


def _record(item):
    """Drive one simplifier call and record the C07 observables."""
    import random
    import kneeliverse.rdp as rdp
    cid, P, spec, seed = item
    P = np.asarray(P, float)
    rng = random.Random(seed)
    ev = simpl.call(P, spec)
    if ev["outcome"] != "returned" or ev.get("removed") is None:
        return None
    red = np.array(ev["reduced"])
    case = {"id": cid, "n": len(P), "reduced": ev["reduced"], "removed": ev["removed"],
            "spec": spec, "points": P.tolist(), "maps": []}
    try:
        cp = rdp.compute_removed_points(P, red)
        case["cp"] = [[int(a), int(b)] for a, b in np.asarray(cp).tolist()]
    except Exception as ex:
        case["cp"] = [[-1, -1]]
    rem = np.array(ev["removed"])
    k = len(red)
    sels = [list(range(k))]
    for _ in range(3):
        sels.append(sorted(rng.sample(range(k), rng.randint(0, k))))
    sels.append(sorted(rng.choice(range(k)) for _ in range(rng.randint(2, 5))))      # ascending with repeated positions
    for s in sels:
        for srt in (True, False):
            r = rem
            if not srt and len(rem) > 0:
                perm = list(range(len(rem)))
                rng.shuffle(perm)
                r = rem[perm]
            try:
                out = rdp.mapping(np.array(s, dtype=int), red, r, sorted=srt)
                out = [int(v) for v in np.asarray(out).tolist()]
            except Exception:
                out = [-1]
            case["maps"].append({"idxs": s, "out": out, "sorted": srt})
    # positions in a narrow integer dtype: they fit, the original indices they map to may not
    if len(P) > 130:
        for dt in (np.int8, np.uint8, np.int16, np.uint16, np.int32):
            if k - 1 <= np.iinfo(dt).max:
                s = sorted(rng.sample(range(k), min(k, 6))) if k > 6 else list(range(k))
                try:
                    out = rdp.mapping(np.array(s, dtype=dt), red, rem)
                    out = [int(v) for v in np.asarray(out).tolist()]
                except Exception:
                    out = [-1]
                case["maps"].append({"idxs": s, "out": out, "sorted": True})
    return case


def _inputs(ctx):
    rng = ctx.rng
    items = []
    cs = curves.adversarial()
    # the adversarial curves (collinear runs, plateaus, rounding residue at chord ends) at EVERY size: a reduction with a
    # repeated index is still a reduction the mapping is applied to
    for ci, P in enumerate(cs):
        n = len(P)
        for k in range(2, n + 2):
            for d, o in (("shortest", "triangle"), ("perpendicular", "segment")):
                items.append(("a%d-%d-%s" % (ci, k, d), P.tolist(), {"f": "rdp_fixed", "length": k, "distance": d, "order": o}, rng.randrange(1 << 30)))
        items.append(("a%d-mp" % ci, P.tolist(), {"f": "mp_grdp", "t": 0.5, "distance": "shortest", "cost": "smape", "order": "segment", "min_points": n},
                      rng.randrange(1 << 30)))
    nrand = 150 if ctx.quick else 1500
    cs += [curves.random_curve(rng, 3, 40) for _ in range(nrand)]
    cs += curves.trace_windows(rng, 10 if ctx.quick else 80, names=("web0_reduced.csv", "usr0.csv"))
    for ci, P in enumerate(cs):
        for f in ["rdp", "grdp", "rdp_fixed", "mp_grdp", "min_point_rdp"]:
            spec = simpl.random_spec(rng, P, f)
            items.append(("c%d-%s" % (ci, f), P.tolist(), spec, rng.randrange(1 << 30)))
    # long curves reduced to a handful of points (original indices beyond the range of narrow integer types)
    for li, n in enumerate([300, 420, 40000] if ctx.quick else [300, 420, 1000, 40000, 70000]):
        x = np.arange(n, dtype=float)
        y = 100.0 / (1.0 + x / (n / 20.0)) + np.array([rng.random() * 0.01 for _ in range(n)])
        P = curves.mk(x, y)
        items.append(("long%d" % li, P.tolist(), {"f": "rdp_fixed", "length": rng.randint(8, 40), "distance": "shortest", "order": "triangle"}, rng.randrange(1 << 30)))
    return items


# ---------------------------------------------------------------------------------------------------------- scale family
# Everything C07 states is about the index structure, so no clause needs a numeric oracle and nothing is decided near a tie:
# a case is (reduced, removed table of the simplifier, table of compute_removed_points, mapped position lists) and TLC
# (Trace_MappingScale: RemovedOf / MapSpec of SimplifyProps) judges all of it.  An item is a small descriptor (shape, size,
# seeds, options); the curve is rebuilt from it in the worker and in a replay.
_S_SHAPES = ("mrc", "staircase", "convex", "valley", "decay", "walk", "jitter")
_S_INTEGRAL = ("staircase", "convex", "valley")
_S_DENSE = ("zigzag", "spikes")            # nearly every point is retained (deep work stacks): short curves only
_S_KCAP = 12000                            # a simplifier result with more retained indices is not sent to TLC (recorded as skipped)
_S_LEAN = 3000                             # beyond this many retained indices the all-positions list is mapped once (sorted rows)
# thresholds of rdp.rdp from coarse to fine: the first rung that retains at least `kmin` indices is the case
_S_LADDER = {"r2": [0.8, 0.95, 0.99, 0.999, 0.9999, 0.99999, 0.999999]}
_S_LADDER_ERR = [0.2, 0.05, 0.01, 0.002, 0.0005, 0.0001, 0.00002, 0.000002]


def _scale_curve(shape, n, cseed):
    """deterministic in (shape, n, cseed); strictly increasing x, y >= 0"""
    import random
    r = random.Random(cseed)
    if shape == "mrc":
        return scale.mrc(n, r, knees=r.randint(3, 12))
    if shape == "staircase":
        return scale.staircase(n, r.randint(5, 60), r, grow=r.random() < 0.3)
    if shape == "convex":
        return scale.convex_pl(n, r.randint(3, 40))
    if shape == "valley":
        return scale.valley(n, r)
    if shape == "decay":                   # smooth convex decay with a slow texture
        x = np.arange(1, n + 1, dtype=float)
        return np.ascontiguousarray(np.column_stack([x, 1000.0 / np.sqrt(x) + 5.0 + 0.3 * np.sin(x / r.choice([50.0, 211.0, 1000.0]))]))
    if shape == "walk":                    # non-increasing random walk with rare cliffs and a small texture
        g = np.random.RandomState(cseed % (2 ** 31))
        y = np.cumsum(np.abs(g.standard_normal(n)) * (1 + 20 * (g.random_sample(n) < 0.001)))[::-1]
        return np.ascontiguousarray(np.column_stack([np.arange(n, dtype=float), y + 0.05 * g.random_sample(n)]))
    if shape == "jitter":                  # straight line with a short alternating stretch (every point of it is retained)
        w = r.randrange(4, min(1500, n // 2))
        a = r.randrange(1, n - w - 1)
        return scale.jitter_line(n, a, a + w, r.choice([0.25, 1.0, 4.0]), slope=-900.0 / n)
    if shape == "zigzag":
        return scale.zigzag(n)
    if shape == "spikes":
        return scale.spikes(n, period=r.choice([4, 7, 16]))
    raise ValueError(shape)


def _index_set(kind, n, iseed, target=None):
    """strictly increasing index sets containing 0 and n-1 (what compute_removed_points is handed)"""
    import random
    r = random.Random(iseed)
    inner = range(1, n - 1)
    if kind == "few":
        S = r.sample(inner, min(n - 2, r.randint(0, 10)))
    elif kind == "rand":
        S = r.sample(inner, min(n - 2, r.randint(20, 600)))
    elif kind == "seams":                  # block boundaries and their neighbours
        B = r.choice([b for b in (64, 256, 1024, 4096, 16384) if b < n])
        S = []
        for m in range(B, n - 1, B):
            S.append(m)
            if r.random() < 0.5:
                S.append(m - 1)
            if r.random() < 0.5:
                S.append(m + 1)
        if len(S) > 900:
            S = r.sample(S, 900)
    elif kind == "head":                   # consecutive run first (rows that drop nothing), then a few long rows
        S = list(range(1, min(n - 1, r.randint(100, 400)))) + r.sample(inner, min(n - 2, r.randint(0, 5)))
    elif kind == "tail":                   # a few long rows first, then a consecutive run up to the end
        S = list(range(max(1, n - r.randint(100, 400)), n - 1)) + r.sample(inner, min(n - 2, r.randint(0, 5)))
    elif kind == "half":
        S = [i for i in inner if r.random() < 0.5]
    elif kind == "full":                   # nothing, or one / two points, dropped
        S = list(inner)
        for _ in range(r.randint(0, 2)):
            S.remove(r.choice(S))
    elif kind == "big":                    # `target` retained indices
        S = r.sample(inner, min(n - 2, target - 2))
    else:
        raise ValueError(kind)
    return sorted(set(S) | {0, n - 1})


def _s_lib(fn, args, kw, m):
    """library call under the loop budgets (linear loops: a quadratic total is never reached by a returning call)"""
    out, val, _ = monitor.call(fn, args, kw, budget=monitor.quad(m, 8), wall=max(120, int(0.02 * m)))
    return out, val


def _s_simpl(P, spec):
    """simplifier call under the harness' wrapper: quadratic back-edge total, CPU watchdog far above anything the unchanged
    code needs on these inputs (the heaviest call of the family takes seconds)"""
    n = len(P)
    mult = len(spec["ts"]) + 1 if spec["f"] == "min_point_rdp" else 1
    return simpl.call(P, spec, budget=mult * monitor.quad(n, 16), wall=max(300, int(0.03 * n)))


def _s_calibrate(P, L, cost, distance, order):
    """A threshold at which the global variants stop after at most L retained points: the global cost of rdp_fixed's
    L-point reduction (same refinement order), nudged to the accepting side.  None when that cost is degenerate.
    Only chooses an option value; nothing is judged with it."""
    import kneeliverse.evaluation as evaluation
    import kneeliverse.metrics as metrics
    ev = _s_simpl(P, {"f": "rdp_fixed", "length": L, "distance": distance, "order": order})
    if ev["outcome"] != "returned" or len(ev["reduced"]) < 3:
        return None
    out, gc = _s_lib(evaluation.compute_global_cost, (P, np.array(ev["reduced"]), enums.pick(metrics.Metrics, cost), {}), {}, len(P))
    if out != "returned":
        return None
    try:
        gc = float(gc)
    except Exception:
        return None
    if not np.isfinite(gc):
        return None
    if cost == "r2":
        return gc * (1 - 1e-9) if 1e-6 < gc < 1 - 1e-9 else None
    return gc * (1 + 1e-9) if 1e-9 < gc < 1e9 else None


def _s_reduce(P, src):
    """-> (event, spec actually used) for a simplifier source; event None if no usable call"""
    f = src["f"]
    if f == "rdp":
        ladder = _S_LADDER.get(src["cost"], _S_LADDER_ERR)
        best = None
        for t in ladder:
            spec = {"f": "rdp", "t": t, "distance": src["distance"], "cost": src["cost"]}
            if src.get("int64"):
                spec["dtype"] = "int64"
            ev = _s_simpl(P, spec)
            if ev["outcome"] != "returned" or ev.get("removed") is None:
                return (ev, spec) if best is None else best
            if len(ev["reduced"]) > _S_KCAP and best is not None:
                return best
            best = (ev, spec)
            if len(ev["reduced"]) >= src["kmin"]:
                break
        return best
    if f == "rdp_fixed":
        spec = {"f": f, "length": src["length"], "distance": src["distance"], "order": src["order"]}
    else:
        cost = "smape" if f == "min_point_rdp" else src["cost"]
        dist = "shortest" if f == "min_point_rdp" else src["distance"]
        order = "segment" if f == "min_point_rdp" else src["order"]
        t = _s_calibrate(P, src["L"], cost, dist, order)
        if t is None:                      # degenerate global cost: the fixed-size reduction itself is the case
            spec = {"f": "rdp_fixed", "length": src["L"], "distance": dist, "order": order}
        elif f == "grdp":
            spec = {"f": f, "t": t, "distance": dist, "cost": cost, "order": order}
        elif f == "mp_grdp":
            spec = {"f": f, "t": t, "distance": dist, "cost": cost, "order": order, "min_points": src["min_points"]}
        else:
            ts = [t] if cost == "r2" else [4 * t, t]
            spec = {"f": f, "ts": ts, "min_points": src["min_points"]}
    if src.get("int64"):
        spec["dtype"] = "int64"
    return _s_simpl(P, spec), spec


def _s_ints(vals):
    out = []
    for v in np.asarray(vals).tolist():
        v = int(v)
        out.append(v if -2 ** 31 < v < 2 ** 31 else -2)     # TLC's integers are 32-bit; a value this far off is wrong anyway
    return out


def _scale_record(item):
    """One scale case: the reduction (simplifier call or index set), compute_removed_points, mapping of several position
    lists (sorted and permuted rows).  -> case dict (the TLC part is what _s_strip keeps), or {"skip": reason}."""
    import random
    import kneeliverse.rdp as rdp
    n = item["n"]
    P = _scale_curve(item["shape"], n, item["cseed"])
    src = item["src"]
    rng = random.Random(item["sseed"])
    if src["kind"] == "simpl":
        if src.get("int64") and not simpl.integral(P):
            src = dict(src, int64=False)
        got = _s_reduce(P, src)
        if got is None:
            return {"id": item["id"], "skip": "no call", "item": item}
        ev, spec = got
        if ev["outcome"] != "returned" or ev.get("removed") is None:
            return {"id": item["id"], "skip": "not returned: %s" % ev["outcome"], "item": item, "spec": spec}
        if len(ev["reduced"]) > _S_KCAP:
            return {"id": item["id"], "skip": "too many retained indices (%d)" % len(ev["reduced"]), "item": item, "spec": spec}
        red_l, rem_l = ev["reduced"], ev["removed"]
        red = np.array(red_l)
        # the table exactly as the simplifier returned it cannot be recovered from the event (rdp.rdp returns floats):
        # the mapping is fed both an integer and a float table below
        rem = np.array(rem_l, dtype=float if spec["f"] == "rdp" else int).reshape(-1, 2)
    else:
        spec = {"f": "compute_removed_points", "set": src["set"]}
        red_l = _index_set(src["set"], n, src["iseed"], src.get("target"))
        red = np.array(red_l)
        rem_l, rem = None, None
    case = {"id": item["id"], "n": n, "reduced": [int(v) for v in red_l], "item": item, "spec": spec, "maps": [],
            "derived": src["kind"] != "simpl"}
    out, cp = _s_lib(rdp.compute_removed_points, (P, red), {}, len(red) + 2)
    try:
        cp_l = [[a, b] for a, b in zip(_s_ints(np.asarray(cp)[:, 0]), _s_ints(np.asarray(cp)[:, 1]))] if out == "returned" and len(cp) else \
               ([] if out == "returned" else [[-1, -1]])
    except Exception:
        cp_l = [[-1, -1]]
    if rem_l is None:                      # index set: the table IS compute_removed_points' (one table, sent once)
        rem_l = cp_l
        rem = np.array(cp_l, dtype=int).reshape(-1, 2)
    case["removed"] = rem_l
    case["cp_same"] = bool(cp_l == rem_l)
    case["cp"] = [] if case["cp_same"] else cp_l
    k = len(red)
    lean = k > _S_LEAN
    sels = [(None, True, None)]
    if not lean:
        sels.append((None, False, None))
    for _ in range(2 if k > 0 else 0):
        s = sorted(rng.sample(range(k), min(k, rng.randint(0, 48))))
        sels += [(s, True, None), (s, False, None)]
    if k > 0:
        sels += [([k - 1], True, None), ([0, k - 1], False, None)]
        s = sorted(rng.choice(range(k)) for _ in range(rng.randint(2, 6)))             # ascending with repeated positions
        sels += [(s, True, None), (s, False, None)]
    if item.get("longlist") and k > 0:               # a position list longer than the reduction (repeats), length past a threshold
        m = item["longlist"]
        s = sorted(rng.randrange(k) for _ in range(m))
        sels.append((s, rng.random() < 0.5, None))
    for dt in ("int8", "uint8", "int16", "uint16", "int32", "uint32"):                 # narrow position dtypes (they fit)
        if 0 < k and k - 1 <= np.iinfo(getattr(np, dt)).max and rng.random() < 0.6:
            s = sorted(rng.sample(range(k), min(k, 6)))
            if k - 1 not in s and rng.random() < 0.5:
                s[-1] = k - 1
            sels.append((s, rng.random() < 0.7, dt))
    alt = rem.astype(int) if rem.dtype.kind == "f" else rem.astype(float)              # the other table dtype
    for si, (s, srt, dt) in enumerate(sels):
        idxs = np.arange(k) if s is None else np.array(s, dtype=getattr(np, dt) if dt else int)
        r = alt if (si % 3 == 2) else rem
        if not srt and len(r) > 1:
            how = rng.randrange(3)
            if how == 0:
                r = r[::-1].copy()
            elif how == 1:
                c = rng.randrange(1, len(r))
                r = np.concatenate([r[c:], r[:c]])
            else:
                perm = list(range(len(r)))
                rng.shuffle(perm)
                r = r[perm]
        o, got = _s_lib(rdp.mapping, (idxs, red, r), {"sorted": srt}, len(idxs) + len(r) + 2)
        try:
            outl = _s_ints(got) if o == "returned" else [-1]
        except Exception:
            outl = [-1]
        case["maps"].append({"idxs": [] if s is None else [int(v) for v in s], "all": s is None, "out": outl, "sorted": bool(srt)})
    return case


def _s_strip(case):
    return {k: case[k] for k in ("id", "n", "reduced", "removed", "cp", "cp_same", "derived", "maps")}


def _s_size(case):
    """integers of the case that reach TLC"""
    return (len(case["reduced"]) + 2 * len(case["removed"]) + 2 * len(case["cp"])
            + sum(len(m["idxs"]) + len(m["out"]) for m in case["maps"]))


def _scale_items(ctx):
    rng = ctx.rng
    q = ctx.quick
    ns = scale.sizes(ctx, lo=257, hi=110000, k_quick=6, k_thorough=14)
    items = []

    def add(tag, n, shape, src, longlist=None):
        it = {"id": "S%d-%s-n%d-%s" % (len(items), tag, n, shape), "n": n, "shape": shape, "cseed": rng.randrange(1 << 30),
              "src": src, "sseed": rng.randrange(1 << 30)}
        if longlist:
            it["longlist"] = longlist
        items.append(it)

    def simpl_src(f, shape):
        src = {"kind": "simpl", "f": f, "distance": rng.choice(simpl.DISTANCES)}
        if f == "rdp":
            src.update(cost=rng.choice(simpl.COSTS), kmin=rng.choice([8, 40, 150, 400]))
        elif f == "rdp_fixed":
            src.update(order=rng.choice(simpl.ORDERS), length=rng.choice([rng.randint(3, 60), rng.randint(61, 256), rng.randint(257, 300),
                                                                           rng.randint(1025, 1100)]))
        else:
            L = rng.choice([rng.randint(6, 60), rng.randint(61, 256), rng.randint(257, 420)])
            src.update(order=rng.choice(simpl.ORDERS), cost=rng.choice(simpl.COSTS), L=L)
            if f != "grdp":
                src["min_points"] = rng.choice([max(2, L // 2), L, L + rng.randint(1, 200)])
        if shape in _S_INTEGRAL and rng.random() < 0.3:
            src["int64"] = True
        return src

    for n in ns:
        for shape in rng.sample(_S_SHAPES, 2 if q else 4):
            for f in ("rdp", "rdp", "rdp_fixed", "grdp", rng.choice(["mp_grdp", "min_point_rdp"])):
                ll = rng.choice([300, 1100, 4200]) if rng.random() < 0.15 else None
                add(f, n, shape, simpl_src(f, shape), ll)
        kinds = ["few", "rand", "seams", "head", "tail"] + (["half"] if n <= 6000 else []) + (["full"] if n <= 3000 else [])
        for kind in rng.sample(kinds, 3 if q else min(6, len(kinds))):
            ll = rng.choice([300, 1100, 4200]) if rng.random() < 0.15 else None
            add("cp-" + kind, n, rng.choice(_S_SHAPES), {"kind": "derived", "set": kind, "iseed": rng.randrange(1 << 30)}, ll)
    # nearly everything retained: one-sided recursion (work stack of the order of n / 2), thousands of rows
    for _ in range(2 if q else 5):
        n = rng.choice([1025, 2049, 4097]) + rng.randrange(0, 300)
        shape = rng.choice(_S_DENSE)
        add("dense", n, shape, {"kind": "simpl", "f": "rdp", "distance": rng.choice(simpl.DISTANCES), "cost": rng.choice(["smape", "rpd", "rmspe"]),
                                "kmin": n})
    # tens of thousands of retained indices (positions, row numbers and running counts past 2^15 / 2^16)
    nbig = max(ns)
    targets = [4096 + rng.randrange(1, 600), 32768 + rng.randrange(1, 1500)]
    if not q:
        targets += [16384 + rng.randrange(1, 1500), 65536 + rng.randrange(1, 1500), nbig - rng.randrange(2, 40)]
    for tg in targets:
        if tg < nbig:
            add("cp-big%d" % tg, nbig, "decay", {"kind": "derived", "set": "big", "iseed": rng.randrange(1 << 30), "target": tg})
    return items


# hand-checkable: 12 points, indices 0 3 4 9 11 retained
_S_GOOD = {"id": "good", "n": 12, "reduced": [0, 3, 4, 9, 11], "removed": [[0, 2], [3, 0], [4, 4], [9, 1]], "cp": [], "cp_same": True,
           "derived": False,
           "maps": [{"idxs": [], "all": True, "out": [0, 3, 4, 9, 11], "sorted": True},
                    {"idxs": [0, 2, 4], "all": False, "out": [0, 4, 11], "sorted": False},
                    {"idxs": [1, 1, 3], "all": False, "out": [3, 3, 9], "sorted": True}]}


def _s_selftests():
    import copy
    g2 = copy.deepcopy(_S_GOOD)
    g2.update(cp=[list(r) for r in g2["removed"]], cp_same=False)
    c1 = copy.deepcopy(_S_GOOD)
    c1["maps"][0]["out"][4] = 10                       # all-positions list, last position one short
    c2 = copy.deepcopy(_S_GOOD)
    c2["maps"][1]["out"][1] = 5
    c3 = copy.deepcopy(_S_GOOD)
    c3["removed"][2][1] = 3                            # a row that counts one point less than were dropped
    c4 = copy.deepcopy(g2)
    c4["cp"][3] = [9, 2]
    c5 = copy.deepcopy(g2)
    c5["cp"] = c5["cp"][:-1]
    c6 = copy.deepcopy(_S_GOOD)
    c6["maps"][2]["out"] = [3, 3]
    g3 = copy.deepcopy(_S_GOOD)
    g3["derived"] = True
    c7 = copy.deepcopy(g3)
    c7["removed"][0] = [0, 3]                          # an index set whose (only) table is compute_removed_points'
    return [(_S_GOOD, "ok"), (g2, "ok"), (c1, "mapping-equals-reduced"), (c2, "unsorted-rows"), (c3, "removed-table-agrees"),
            (c4, "compute-removed-points"), (c5, "compute-removed-points"), (c6, "mapping-equals-reduced"), (g3, "ok"),
            (c7, "compute-removed-points")]


def _s_judge(ctx, cases, selftest=None):
    """-> {id: verdicts}.  Chunks of balanced size, a few MB of JSON at most each."""
    order = sorted(cases, key=_s_size, reverse=True)
    total = sum(_s_size(c) for c in order)
    g = max(1, min(len(order), -(-total // 150000)))                  # ~150k integers (about 1 MB) per TLC run
    groups = [order[j::g] for j in range(g)]
    flat = [c for grp in groups for c in grp]
    return ctx.trace("Trace_MappingScale", [_s_strip(c) for c in flat], chunk=max(1, -(-len(flat) // g)), selftest=selftest), total


def _scale(ctx):
    items = _scale_items(ctx)
    # heavy items first (the pool hands them out in order)
    items.sort(key=lambda it: -(it["src"].get("target") or 0) - (it["n"] if it["src"]["kind"] == "simpl" else 0))
    res = par.pmap(_scale_record, items, chunksize=1)
    cases = [c for c in res if "skip" not in c]
    skipped = [c for c in res if "skip" in c]
    if not cases:
        from harness.main import Machinery
        raise Machinery("scale family: no case was recorded (%s)" % [c["skip"] for c in skipped][:5])
    byid = {c["id"]: c for c in cases}
    rej, total = _s_judge(ctx, cases, selftest=_s_selftests())
    info = {"cases": len(cases), "sizes": sorted({c["n"] for c in cases}), "max_retained": max(len(c["reduced"]) for c in cases),
            "max_rows": max(len(c["removed"]) for c in cases), "longest_position_list": max(max(len(m["out"]) for m in c["maps"]) for c in cases),
            "mapped_lists": sum(len(c["maps"]) for c in cases), "integers_sent_to_TLC": total, "by_source": {}, "skipped": len(skipped)}
    for c in cases:
        f = c["spec"]["f"]
        info["by_source"][f] = info["by_source"].get(f, 0) + 1
        k = len(c["reduced"])
        ctx.count(("S", c["id"], c["n"], k, c["removed"][:8]), 2 < k < c["n"] and any(len(m["out"]) > 0 for m in c["maps"]))
    for c in skipped:
        ctx.note("scale: %s skipped: %s" % (c["id"], c["skip"]))
    ctx.extra["scale"] = info
    for cid, vs in rej.items():
        ctx.violation(vs[0][0], {"kind": "S", "item": byid[cid]["item"]}, {"verdict": vs[0], "spec": byid[cid]["spec"], "n": byid[cid]["n"],
                                                                            "retained": len(byid[cid]["reduced"])})
    big = max(cases, key=lambda c: c["n"] if c["spec"]["f"] == "rdp" else 0)
    ctx.sample({"binding": "S", "spec": big["spec"], "case": _s_strip(big)})
    ctx.note("scale: clauses judged = all of C07's (removed-table-agrees, compute-removed-points, mapping-equals-reduced, unsorted-rows); "
             "row orders with sorted=False are a reversal, a rotation or a random permutation, not all permutations; the table rdp.rdp "
             "returns is fed to mapping as float and as int")


def _strip(case):
    return {k: case[k] for k in ("id", "n", "reduced", "removed", "cp", "maps")}


def run(ctx):
    ctx.rule = ("G: every strictly increasing index subset containing both ends (n <= N) x every ascending "
                "position subset x row orders, generated by TLC from Mapping.tla and replayed into "
                "compute_removed_points/mapping; T: reductions returned by the 5 simplifiers on adversarial, "
                "random and bundled-trace curves.  non-trivial: the reduction drops at least one point and "
                "at least one position is queried.  S (scale): the same clauses on curves of 257 .. 110000 points "
                "(sizes just above 256, 1024, 4096, 10^4, 16384, 32768, 65536, 10^5; 9 shapes) - reductions returned by rdp (threshold ladder, "
                "5 costs), rdp_fixed (lengths to 1100), grdp / mp_grdp / min_point_rdp (thresholds calibrated on the fixed-size chain) and "
                "index sets (few, random, block seams, dense head / tail, half, full, > 2^12 and > 2^15 retained indices, thorough tier also > 2^16 and all but a few) handed to "
                "compute_removed_points; position lists: all, random, ends, repeats, longer than 4096, narrow dtypes; rows reversed / rotated "
                "/ permuted; judged whole by TLC (Trace_MappingScale)")
    ctx.assumptions += numeric.ASSUMPTIONS + [
        "mapping's precondition (positions ascending, reduced a well-formed reduction) is the property's quantifier",
        "TLC, SANY, CommunityModules Json/IOUtils, CPython, NumPy are trusted"]
    # ---- M
    ctx.mc("Mapping", "MC_Mapping", need_actions=("SortRemoved", "Advance", "Append1", "Return"))
    # the machine refines the abstraction whose result is proved for EVERY reduction and position list (TLAPS, MappingProof_proofs.tla)
    ctx.mc("MappingRefines", "MC_MappingRefines", need_actions=("SortRemoved", "Advance", "Append1", "Return"))
    if not ctx.quick:
        from harness import proofs
        proofs.recheck(ctx, ["MappingProof_proofs"])
    # ---- G
    beh = ctx.gen("Mapping", "Gen_Mapping_quick" if ctx.quick else "Gen_Mapping_thorough")
    res = par.pmap(_replay_line, beh)
    for b, bad in zip(beh, res):
        nontriv = len(b["reduced"]) < b["n"] and len(b["idxs"]) > 0
        ctx.count(("G", b["n"], b["reduced"], b["removed"], b["idxs"], b["sorted"]), nontriv)
        for clause, detail in bad:
            ctx.violation(clause, {"kind": "G", "behaviour": b}, detail)
    ctx.traces += len(beh)
    ctx.exhaustive = True
    ctx.sample({"binding": "G", "behaviour": beh[len(beh) // 2]})
    # ---- T
    items = _inputs(ctx)
    cases = [c for c in par.pmap(_record, items) if c is not None]
    byid = {c["id"]: c for c in cases}
    good = static_cases.get("C07")
    corrupt = dict(good, maps=[dict(m) for m in good["maps"]])
    corrupt["maps"][0] = dict(corrupt["maps"][0], out=[v + (1 if i == 1 else 0) for i, v in enumerate(corrupt["maps"][0]["out"])])
    corrupt2 = dict(good, removed=[list(r) for r in good["removed"]])
    corrupt2["removed"][0][1] += 1
    corrupt3 = dict(good, cp=[list(r) for r in good["cp"]][:-1])
    rej = ctx.trace("Trace_Mapping", [_strip(c) for c in cases],
                    selftest=[(good, "ok"), (corrupt, "mapping-equals-reduced"), (corrupt2, "removed-table-agrees"),
                              (corrupt3, "compute-removed-points")])
    for c in cases:
        ctx.count(("T", c["id"], c["reduced"]), len(c["reduced"]) < c["n"] and len(c["reduced"]) > 2)
    for cid, vs in rej.items():
        c = byid[cid]
        ctx.violation(vs[0][0], {"kind": "T", "item": [c["id"], c["points"], c["spec"], 0]}, {"verdict": vs[0]})
    ctx.sample({"binding": "T", "case": _strip(cases[len(cases) // 3])})
    # ---- S (scale)
    _scale(ctx)


def replay(ctx, obj):
    case = obj["case"]
    if case["kind"] == "G":
        bad = _replay_line(case["behaviour"])
        for clause, detail in bad:
            ctx.violation(clause, case, detail)
    elif case["kind"] == "S":
        c = _scale_record(case["item"])
        if "skip" in c:
            print("replay: %s; see C01" % c["skip"])
            return
        rej, _ = _s_judge(ctx, [c])
        for cid, vs in rej.items():
            ctx.violation(vs[0][0], case, {"verdict": vs[0], "spec": c["spec"], "n": c["n"], "retained": len(c["reduced"])})
    else:
        c = _record(tuple(case["item"]))
        if c is None:
            print("replay: the call no longer returns; see C01")
            return
        rej = ctx.trace("Trace_Mapping", [_strip(c)])
        for cid, vs in rej.items():
            ctx.violation(vs[0][0], case, {"verdict": vs[0]})
