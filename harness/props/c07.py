"""C07 - reduced-space indices map back to exactly the original indices.
M: Mapping.tla machine = MapSpec over the whole bounded structure space (MC_Mapping).
G: the same module with Emit=TRUE generates every (reduction, row order, position list) behaviour,
   replayed into rdp.compute_removed_points and rdp.mapping.
T: reductions recorded from the five simplifiers on real-valued curves, judged by Trace_Mapping."""
import numpy as np

from harness import curves, numeric, par, simpl, static_cases


def _replay_line(b):
    """One generated behaviour -> list of (clause, detail) mismatches against the real functions."""
    import kneeliverse.rdp as rdp
    bad = []
    n = b["n"]
    reduced = np.array(b["reduced"])
    rows = b["removed"]
    P = np.column_stack([np.arange(n, dtype=float), (np.arange(n) * 7 % 5).astype(float)])
    try:
        cp = rdp.compute_removed_points(P, reduced)
        exp_tbl = sorted(rows)
        got_tbl = [[int(a), int(c)] for a, c in np.asarray(cp).tolist()]
        if got_tbl != exp_tbl:
            bad.append(("removed-table-agrees", {"got": got_tbl, "expected": exp_tbl}))
    except Exception as ex:
        bad.append(("removed-table-agrees", {"raised": repr(ex)}))
    idxs = np.array(b["idxs"], dtype=int)
    for dtype in (int, float):
        removed = np.array(rows, dtype=dtype)
        try:
            got = rdp.mapping(idxs, reduced, removed, sorted=b["sorted"])
            got = [int(v) for v in np.asarray(got).tolist()]
            if got != list(b["expected"]):
                bad.append(("mapping-equals-reduced" if b["sorted"] else "unsorted-rows",
                            {"got": got, "expected": b["expected"], "dtype": dtype.__name__}))
        except Exception as ex:
            bad.append(("mapping-equals-reduced", {"raised": repr(ex), "dtype": dtype.__name__}))
    return bad


def _record(item):
    """Drive one simplifier call and record the C07 observables."""
    import random
    import kneeliverse.rdp as rdp
    cid, P, spec, seed = item
    P = np.asarray(P, float)
    rng = random.Random(seed)
    ev = simpl.call(P, spec)
    if ev["outcome"] != "returned" or ev.get("removed") is None:
        return None
    red = np.array(ev["reduced"])
    case = {"id": cid, "n": len(P), "reduced": ev["reduced"], "removed": ev["removed"],
            "spec": spec, "points": P.tolist(), "maps": []}
    try:
        cp = rdp.compute_removed_points(P, red)
        case["cp"] = [[int(a), int(b)] for a, b in np.asarray(cp).tolist()]
    except Exception as ex:
        case["cp"] = [[-1, -1]]
    rem = np.array(ev["removed"])
    k = len(red)
    sels = [list(range(k))]
    for _ in range(3):
        sels.append(sorted(rng.sample(range(k), rng.randint(0, k))))
    sels.append(sorted(rng.choice(range(k)) for _ in range(rng.randint(2, 5))))      # ascending with repeated positions
    for s in sels:
        for srt in (True, False):
            r = rem
            if not srt and len(rem) > 0:
                perm = list(range(len(rem)))
                rng.shuffle(perm)
                r = rem[perm]
            try:
                out = rdp.mapping(np.array(s, dtype=int), red, r, sorted=srt)
                out = [int(v) for v in np.asarray(out).tolist()]
            except Exception:
                out = [-1]
            case["maps"].append({"idxs": s, "out": out, "sorted": srt})
    # positions in a narrow integer dtype: they fit, the original indices they map to may not
    if len(P) > 130:
        for dt in (np.int8, np.uint8, np.int16, np.uint16, np.int32):
            if k - 1 <= np.iinfo(dt).max:
                s = sorted(rng.sample(range(k), min(k, 6))) if k > 6 else list(range(k))
                try:
                    out = rdp.mapping(np.array(s, dtype=dt), red, rem)
                    out = [int(v) for v in np.asarray(out).tolist()]
                except Exception:
                    out = [-1]
                case["maps"].append({"idxs": s, "out": out, "sorted": True})
    return case


def _inputs(ctx):
    rng = ctx.rng
    items = []
    cs = curves.adversarial()
    # the adversarial curves (collinear runs, plateaus, rounding residue at chord ends) at EVERY size: a reduction with a
    # repeated index is still a reduction the mapping is applied to
    for ci, P in enumerate(cs):
        n = len(P)
        for k in range(2, n + 2):
            for d, o in (("shortest", "triangle"), ("perpendicular", "segment")):
                items.append(("a%d-%d-%s" % (ci, k, d), P.tolist(), {"f": "rdp_fixed", "length": k, "distance": d, "order": o}, rng.randrange(1 << 30)))
        items.append(("a%d-mp" % ci, P.tolist(), {"f": "mp_grdp", "t": 0.5, "distance": "shortest", "cost": "smape", "order": "segment", "min_points": n},
                      rng.randrange(1 << 30)))
    nrand = 150 if ctx.quick else 1500
    cs += [curves.random_curve(rng, 3, 40) for _ in range(nrand)]
    cs += curves.trace_windows(rng, 10 if ctx.quick else 80, names=("web0_reduced.csv", "usr0.csv"))
    for ci, P in enumerate(cs):
        for f in ["rdp", "grdp", "rdp_fixed", "mp_grdp", "min_point_rdp"]:
            spec = simpl.random_spec(rng, P, f)
            items.append(("c%d-%s" % (ci, f), P.tolist(), spec, rng.randrange(1 << 30)))
    # long curves reduced to a handful of points (original indices beyond the range of narrow integer types)
    for li, n in enumerate([300, 420, 40000] if ctx.quick else [300, 420, 1000, 40000, 70000]):
        x = np.arange(n, dtype=float)
        y = 100.0 / (1.0 + x / (n / 20.0)) + np.array([rng.random() * 0.01 for _ in range(n)])
        P = curves.mk(x, y)
        items.append(("long%d" % li, P.tolist(), {"f": "rdp_fixed", "length": rng.randint(8, 40), "distance": "shortest", "order": "triangle"}, rng.randrange(1 << 30)))
    return items


def _strip(case):
    return {k: case[k] for k in ("id", "n", "reduced", "removed", "cp", "maps")}


def run(ctx):
    ctx.rule = ("G: every strictly increasing index subset containing both ends (n <= N) x every ascending "
                "position subset x row orders, generated by TLC from Mapping.tla and replayed into "
                "compute_removed_points/mapping; T: reductions returned by the 5 simplifiers on adversarial, "
                "random and bundled-trace curves.  non-trivial: the reduction drops at least one point and "
                "at least one position is queried")
    ctx.assumptions += numeric.ASSUMPTIONS + [
        "mapping's precondition (positions ascending, reduced a well-formed reduction) is the property's quantifier",
        "TLC, SANY, CommunityModules Json/IOUtils, CPython, NumPy are trusted"]
    # ---- M
    ctx.mc("Mapping", "MC_Mapping", need_actions=("SortRemoved", "Advance", "Append1", "Return"))
    # the machine refines the abstraction whose result is proved for EVERY reduction and position list (TLAPS, MappingProof_proofs.tla)
    ctx.mc("MappingRefines", "MC_MappingRefines", need_actions=("SortRemoved", "Advance", "Append1", "Return"))
    if not ctx.quick:
        from harness import proofs
        proofs.recheck(ctx, ["MappingProof_proofs"])
    # ---- G
    beh = ctx.gen("Mapping", "Gen_Mapping_quick" if ctx.quick else "Gen_Mapping_thorough")
    res = par.pmap(_replay_line, beh)
    for b, bad in zip(beh, res):
        nontriv = len(b["reduced"]) < b["n"] and len(b["idxs"]) > 0
        ctx.count(("G", b["n"], b["reduced"], b["removed"], b["idxs"], b["sorted"]), nontriv)
        for clause, detail in bad:
            ctx.violation(clause, {"kind": "G", "behaviour": b}, detail)
    ctx.traces += len(beh)
    ctx.exhaustive = True
    ctx.sample({"binding": "G", "behaviour": beh[len(beh) // 2]})
    # ---- T
    items = _inputs(ctx)
    cases = [c for c in par.pmap(_record, items) if c is not None]
    byid = {c["id"]: c for c in cases}
    good = static_cases.get("C07")
    corrupt = dict(good, maps=[dict(m) for m in good["maps"]])
    corrupt["maps"][0] = dict(corrupt["maps"][0], out=[v + (1 if i == 1 else 0) for i, v in enumerate(corrupt["maps"][0]["out"])])
    corrupt2 = dict(good, removed=[list(r) for r in good["removed"]])
    corrupt2["removed"][0][1] += 1
    corrupt3 = dict(good, cp=[list(r) for r in good["cp"]][:-1])
    rej = ctx.trace("Trace_Mapping", [_strip(c) for c in cases],
                    selftest=[(good, "ok"), (corrupt, "mapping-equals-reduced"), (corrupt2, "removed-table-agrees"),
                              (corrupt3, "compute-removed-points")])
    for c in cases:
        ctx.count(("T", c["id"], c["reduced"]), len(c["reduced"]) < c["n"] and len(c["reduced"]) > 2)
    for cid, vs in rej.items():
        c = byid[cid]
        ctx.violation(vs[0][0], {"kind": "T", "item": [c["id"], c["points"], c["spec"], 0]}, {"verdict": vs[0]})
    ctx.sample({"binding": "T", "case": _strip(cases[len(cases) // 3])})


def replay(ctx, obj):
    case = obj["case"]
    if case["kind"] == "G":
        bad = _replay_line(case["behaviour"])
        for clause, detail in bad:
            ctx.violation(clause, case, detail)
    else:
        c = _record(tuple(case["item"]))
        if c is None:
            print("replay: the call no longer returns; see C01")
            return
        rej = ctx.trace("Trace_Mapping", [_strip(c)])
        for cid, vs in rej.items():
            ctx.violation(vs[0][0], case, {"verdict": vs[0]})
