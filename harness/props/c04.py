"""C04 - threshold RDP keeps a segment only if it fits and splits only where it must.
M: MC_Rdp (OutputExplainable: the machine's output is explainable by its own oracle, every oracle, n<=7).
T: rdp.rdp results + class/far tables from the library's primitives judged by ExplainClause (Trace_Simplify).
T (scale): production-size curves (10^3..10^5 points, nestings hundreds to thousands of ranges deep); the result is judged by
   Trace_ExplainScale from a certificate of the same predicate with SPARSE tables (all adjacent pairs + the ranges of the
   derivation), see the SCALE section below."""
import hashlib
import heapq
import random

import numpy as np

from harness import curves, monitor, numeric, oracles, par, scale, simpl, static_cases, tlc

KMAX = 40


def _record(item):
    cid, P, spec = item
    P = np.asarray(P, float)
    ev = simpl.call(P, spec)
    if ev["outcome"] != "returned":
        return None
    S = ev["reduced"]
    n = len(P)
    ok = len(S) >= 2 and S[0] == 0 and S[-1] == n - 1 and all(S[j] < S[j + 1] for j in range(len(S) - 1))
    if not ok or len(S) > KMAX:
        return None
    k = len(S)
    cls = [["-"] * k for _ in range(k)]
    far = [[[] for _ in range(k)] for _ in range(k)]
    for p in range(k):
        for q in range(p + 1, k):
            cls[p][q] = oracles.cost_class(P, S[p], S[q], spec["t"], spec["cost"])
            if q > p + 1:
                far[p][q] = oracles.far_set(P, S[p], S[q], spec["distance"])
    return {"id": cid, "kind": "explain", "n": n, "S": S, "cls": cls, "far": far}, \
           {"points": P.tolist(), "spec": spec}


def inputs(ctx):
    rng = ctx.rng
    cs = curves.adversarial()
    grid = []
    for n in (3, 4, 5, 6):
        grid += curves.grid_curves(n, 3 if n < 6 else 2, spacings=(1, 2, 3))
    cs += rng.sample(grid, 250) if ctx.quick else grid
    cs += [curves.random_curve(rng, 3, 50 if ctx.quick else 150) for _ in range(250 if ctx.quick else 2500)]
    cs += curves.trace_windows(rng, 6 if ctx.quick else 60, 20, 100, names=("web0_reduced.csv", "usr0.csv", "web2.csv"))
    for _ in range(60 if ctx.quick else 500):          # spiky, steep, non-monotone curves
        n = rng.randint(6, 30)
        x = np.cumsum([rng.choice([1, 1, 2, 7]) for _ in range(n)]).astype(float)
        y = np.array([rng.choice([0.5, 1.0, 40.0, 90.0, 200.0]) * rng.random() + 1.0 for _ in range(n)])
        cs.append(curves.mk(x, y))
    # long curves (fast paths / chunking that only start at some size must not change the partition)
    big = []
    for n in ([600, 1500] if ctx.quick else [600, 900, 1500, 2500, 5000]):
        x = np.arange(1, n + 1, dtype=float)
        base = 100.0 / np.sqrt(x)
        alt = base.copy(); alt[1::2] *= 0.9                              # every second sample lower
        rip = base * (1.0 + 0.05 * np.sin(x * 2.0 * np.pi / 3.0))        # period-3 ripple
        spk = base.copy(); spk[n // 2 + 1] *= 1.8; spk[n // 3 + 1] *= 0.3  # narrow spikes
        noi = base * np.array([1.0 + 0.05 * rng.random() for _ in range(n)])
        big += [curves.mk(x, alt), curves.mk(x, rip), curves.mk(x, spk), curves.mk(x, noi)]
    nbig = len(big)
    cs = big + cs
    items = []
    for ci, P in enumerate(cs):
        combos = [(c, d) for c in simpl.COSTS for d in simpl.DISTANCES]
        if ci < nbig:
            for c, d in rng.sample(combos, 4):
                for ti, t in enumerate([0.5, 0.2, 0.08] if c != "r2" else [0.5, 0.9]):
                    items.append(("big%d-%s-%s-%d" % (ci, c, d, ti), P.tolist(), {"f": "rdp", "t": t, "distance": d, "cost": c}))
            continue
        ci -= nbig
        if ci >= 19:
            combos = rng.sample(combos, 3 if ctx.quick else 6)
        ci += nbig
        for c, d in combos:
            ts = [0.01, 0.1, 0.5] + simpl.harvest_thresholds(P, c, rng, 3)
            if c == "r2":
                ts = [t for t in ts if t <= 1] + [0.9, 0.99]
            for ti, t in enumerate(rng.sample(ts, min(len(ts), 3))):
                items.append(("c%d-%s-%s-%d" % (ci, c, d, ti), P.tolist(), simpl.maybe_int(rng, P, {"f": "rdp", "t": t, "distance": d, "cost": c})))
    return items


def _selftests():
    c = static_cases.get("C04")
    S = c["S"]
    out = [(c, "ok")]
    j = next(j for j in range(len(S) - 1) if S[j + 1] - S[j] > 1)
    cc = dict(c, cls=[list(r) for r in c["cls"]])
    cc["cls"][j][j + 1] = "reject"                      # a retained segment that does not fit
    out.append((cc, "retained-segment-fits"))
    cc = dict(c, cls=[list(r) for r in c["cls"]])
    cc["cls"][0][len(S) - 1] = "accept"                 # the whole curve fits, yet it was split
    out.append((cc, "split-was-needed"))
    out.append((dict(c, far=[[[] for _ in r] for r in c["far"]]), "split-at-farthest"))
    return out


# ====================================================================================================== SCALE
# Production-size inputs.  A change that is invisible on short curves (a bounded work stack, a 16-bit index, a block seam, a
# strided cost above a size threshold) only shows on long ranges or deep nestings, so this family replays
#   * DEEP one-sided nestings (hundreds to thousands of ranges pending at once): decreasing staircases whose steps grow to
#     the right (and their mirror images), zigzags / spike trains / sawteeth of growing amplitude, and
#   * LONG production-like curves (miss-ratio-like, convex piecewise-linear, valleys, staircases, jittered lines, exact
#     elbows) at sizes just above 2^10 .. 10^5 (scale.sizes),
# x 5 metrics x 2 distances x tight / loose thresholds x thresholds harvested from the cost of ranges the walk itself
# visits (exact ties on ranges of thousands of points) x 3 abscissa layouts (unit, dyadic fraction, ragged steps).
# Judging: ExplainClause needs k^2 table entries and recurses as deep as the nesting; at this size the harness builds a
# CERTIFICATE of the same predicate (a complete, memoised search that mirrors ExplainClause, including ties between several
# retained farthest points) with oracle values only for the ranges the derivation mentions plus ALL adjacent pairs, and
# Trace_ExplainScale checks every node of it locally.  Certificates larger than NODECAP nodes keep their largest ranges
# (and any failing path) and leave the rest OPEN (only their leaves are judged).
NODECAP_QUICK, NODECAP_THOROUGH = 4000, 12000
LONG, WALL = 20000, 120
CLS = {"accept": 0, "reject": 1, "nan": 2}
TIGHT = {"smape": 0.001, "rpd": 0.001, "rmspe": 0.001, "rmsle": 0.001, "r2": 0.9999}
LOOSE = {"smape": 0.02, "rpd": 0.02, "rmspe": 0.1, "rmsle": 0.02, "r2": 0.99}


def _stairs_n(K, w0, g):
    return 1 + K * w0 + g * K * (K - 1) // 2


def _stairs_K(n, w0, g):
    """the largest K with _stairs_n(K, w0, g) <= n"""
    K = int((-(2 * w0 - g) + ((2 * w0 - g) ** 2 + 8.0 * g * (n - 1)) ** 0.5) / (2.0 * g))
    while _stairs_n(K + 1, w0, g) <= n:
        K += 1
    while K > 2 and _stairs_n(K, w0, g) > n:
        K -= 1
    return K


def _deep_stairs(K, w0=4, g=1, slope=0.02):
    """Decreasing staircase (1000 -> 100) with K steps; step k is w0 + g*k points wide and drops in proportion to its width
    (a miss-ratio curve with growing working sets), plateaus slightly sloped.  Threshold RDP peels one step at a time from
    the right: one more range stays pending per retained index (about 1.5 K .. 2 K pending at once at the tight thresholds)."""
    w = [w0 + g * k for k in range(K)]
    n = sum(w) + 1
    y = np.empty(n)
    level, pos = 1000.0, 0
    for k in range(K):
        drop = 900.0 * w[k] / (n - 1.0)
        y[pos:pos + w[k]] = level - slope * drop * np.arange(w[k]) / w[k]
        pos += w[k]
        level -= drop
    y[pos] = level
    return y


def _sawtooth(n, K):
    """K teeth of growing period and height on a slowly decreasing floor (non-monotone, one-sided)."""
    K = max(2, min(K, (n - 1) // 6))
    g = max(0.0, 2.0 * (n - 1 - K * 5) / (K * (K - 1.0)))
    w = [5 + int(g * k) for k in range(K)]
    w[-1] += (n - 1) - sum(w)
    y = np.empty(n)
    pos = 0
    for k in range(K):
        h = 4.0 + 2.0 * k
        y[pos:pos + w[k]] = 50.0 + h * np.arange(w[k]) / w[k]
        pos += w[k]
    y[pos] = 50.0
    return y + 0.25 * (n - np.arange(n)) / n


def build(recipe):
    """Deterministic (n, 2) C-contiguous float64 curve, strictly increasing x, from a JSON-able recipe."""
    sh, n = recipe["shape"], int(recipe["n"])
    rng = random.Random(recipe.get("seed", 0))
    K = int(recipe.get("K", 0))
    if sh == "deep_stairs":
        y = _deep_stairs(K, w0=int(recipe["w0"]), g=int(recipe["g"]), slope=float(recipe.get("slope", 0.02)))
        assert len(y) == n
    elif sh == "sawtooth":
        y = _sawtooth(n, K)
    elif sh == "zigzag":
        y = scale.zigzag(n)[:, 1] + 1.0
    elif sh == "spikes":
        y = scale.spikes(n, period=int(recipe.get("period", 4)))[:, 1] + 1.0
    elif sh == "mrc":
        y = scale.mrc(n, rng, knees=max(2, K))[:, 1] + 1.0
    elif sh == "convex_pl":
        y = scale.convex_pl(n, max(1, K))[:, 1]
    elif sh == "valley":
        y = scale.valley(n, rng)[:, 1]
    elif sh == "staircase":
        y = scale.staircase(n, max(2, K), rng=rng, grow=bool(recipe.get("grow")))[:, 1]
    elif sh == "jitter_line":
        ln = min(int(recipe.get("len", 200)), max(8, n // 10))    # a SHORT jittered window: the result stays small
        a = rng.randrange(n // 8, n - n // 8 - ln)
        y = scale.jitter_line(n, a, a + ln, float(recipe.get("amp", 8.0)), slope=-800.0 / n)[:, 1]
    elif sh == "elbow":
        y = scale.elbow(n, int(recipe["corner"]), -0.5, -0.015625)[:, 1]
        y = y - y.min() + 1.0
    else:
        raise ValueError(sh)
    if recipe.get("mirror"):
        y = y[::-1]
    xm = recipe.get("x", "unit")
    if xm == "unit":
        x = np.arange(n, dtype=float)
    elif xm == "quarter":
        x = 3.0 + 0.25 * np.arange(n, dtype=float)
    else:                                     # ragged: steps 1, 1, 2, 7, ...
        x = np.concatenate([[0.0], np.cumsum(scale.tile([1.0, 1.0, 2.0, 7.0], n - 1))])
    return np.ascontiguousarray(np.column_stack([x, np.asarray(y, float)]))


def _digest(P):
    return hashlib.sha256(np.ascontiguousarray(P).tobytes()).hexdigest()[:16]


def _search(k, leaf_ok, tab, max_evals):
    """Complete memoised search for a derivation of ExplainClause over positions 1..k (same semantics, including the
    choice among several retained farthest points; on failure the first candidate is kept, as CHOOSE would).
    tab(p, q) -> (class, [retained positions strictly inside that are farthest points]).  Iterative: nestings are deep.
    Returns (ok, info) with info[(p, q)] = [class, far, chosen m, candidate cursor], or None when over budget."""
    ok, info = {}, {}
    evals = 0
    stack = [(1, k)]
    while stack:
        p, q = stack[-1]
        if (p, q) in ok:
            stack.pop()
            continue
        if q == p + 1:
            ok[(p, q)] = leaf_ok(p)
            stack.pop()
            continue
        nd = info.get((p, q))
        if nd is None:
            evals += 1
            if evals > max_evals:
                return None
            c, F = tab(p, q)
            nd = info[(p, q)] = [c, F, 0, 0]
            if c == CLS["accept"] or not F:
                ok[(p, q)] = False
                stack.pop()
                continue
        F = nd[1]
        while True:
            m = F[nd[3]]
            left = ok.get((p, m))
            if left is None:
                stack.append((p, m))
                break
            if left:
                right = ok.get((m, q))
                if right is None:
                    stack.append((m, q))
                    break
                if right:
                    ok[(p, q)] = True
                    nd[2] = m
                    stack.pop()
                    break
            nd[3] += 1
            if nd[3] == len(F):
                ok[(p, q)] = False
                nd[2] = F[0]
                stack.pop()
                break
    return ok, info


def _emit(S, ok, info, nodecap):
    """The certificate as a list of nodes [p, q, m, l, r, class, far] (see Trace_ExplainScale): largest ranges first, a
    failing path always, at most ~nodecap expanded nodes; what is not expanded is OPEN (m = -1)."""
    k = len(S)
    if k <= 2:
        return [], {"expanded": 0, "open": 0}
    order = []
    ids = {}
    heap = [(1 if ok.get((1, k), True) else 0, -(S[k - 1] - S[0]), 1, k)]
    expanded = nopen = 0
    while heap:
        pri, _, p, q = heapq.heappop(heap)
        ids[(p, q)] = len(order) + 1
        nd = info.get((p, q))
        if nd is None or (p, q) not in ok or (pri == 1 and expanded >= nodecap):
            order.append([p, q, -1, 0, 0, 2, []])
            nopen += 1
            continue
        expanded += 1
        c, F, m = nd[0], nd[1], nd[2]
        order.append([p, q, m, (p, m), (m, q), c, F])
        if m > 0:
            for a, b in ((p, m), (m, q)):
                if b > a + 1:
                    heapq.heappush(heap, (0 if ok.get((a, b)) is False else 1, -(S[b - 1] - S[a - 1]), a, b))
    for nd in order:
        if nd[2] > 0:
            nd[3] = ids.get(nd[3], 0)
            nd[4] = ids.get(nd[4], 0)
        else:
            nd[3] = nd[4] = 0
    return order, {"expanded": expanded, "open": nopen}


def _pending(k, info):
    """largest number of ranges pending at once when the derivation is walked depth first, left child first (the library's
    own work stack on the pinned tree)"""
    stack, mx = [(1, k)], 1
    while stack:
        mx = max(mx, len(stack))
        p, q = stack.pop()
        nd = info.get((p, q))
        if q > p + 1 and nd is not None and nd[2] > 0:
            stack.append((nd[2], q))
            stack.append((p, nd[2]))
    return mx


def _certify(cid, n, S, tab, adj, nodecap):
    """-> (case for Trace_ExplainScale, stats) or (None, reason)"""
    k = len(S)
    leaf_ok = lambda p: S[p] - S[p - 1] <= 1 or adj[p - 1] in (0, 2)
    r = _search(k, leaf_ok, tab, 8 * k + 2000)
    if r is None:
        return None, "tie-search-budget"
    ok, info = r
    nodes, st = _emit(S, ok, info, nodecap)
    st.update(k=k, explained=bool(ok.get((1, k), True)), pending=_pending(k, info),
              ties=sum(1 for nd in info.values() if len(nd[1]) > 1))
    return {"id": cid, "n": n, "S": S, "adj": adj, "nodes": nodes}, st


def _value(P, a, b, cost):
    import kneeliverse.linear_fit as lf
    pt = P[a:b + 1]
    return float(getattr(lf, oracles.COST_PRIMITIVE[cost])(pt, lf.linear_fit_points(pt)))


def _one_scale(cid, P, spec, nodecap):
    """one call of rdp.rdp on a long curve + its certificate.  -> (case, stats) or (None, reason)"""
    n = len(P)
    # hang protection: simpl.call's defaults (quadratic total, 8n+64 per refinement loop) up to LONG points; beyond that a
    # spinning loop would take minutes to reach its per-loop limit (every iteration costs O(n)), so the quadratic total is
    # backed by a stop after WALL seconds of CPU time (the pinned tree needs < 2 s for any of these calls)
    ev = simpl.call(P, spec) if n <= LONG else simpl.call(P, spec, budget=monitor.quad(n, 16), wall=WALL)
    if ev["outcome"] != "returned":
        return None, "outcome:" + ev["outcome"]
    S = ev["reduced"]
    if not (len(S) >= 2 and S[0] == 0 and S[-1] == n - 1 and all(S[j] < S[j + 1] for j in range(len(S) - 1))):
        return None, "not-a-reduction"                                 # C01's domain
    Sa = np.asarray(S)
    t, cost = spec["t"], spec["cost"]
    dist = oracles.dist_fn(spec["distance"])
    eps = float(np.finfo(float).eps)
    adj = [CLS[oracles.cost_class(P, S[j], S[j + 1], t, cost)] for j in range(len(S) - 1)]
    probe = [0]

    def tab(p, q):
        a, b = S[p - 1], S[q - 1]
        c = CLS[oracles.cost_class(P, a, b, t, cost)]
        pt = P[a:b + 1]
        d = np.asarray(dist(pt, pt[0], pt[-1]), float)
        inner = d[1:-1]
        if not np.all(np.isfinite(inner)):
            return c, list(range(p + 1, q))                             # undefined distances: nothing is pinned
        # the same noise class as oracles.far_set, restricted to the retained indices (vectorised: ranges are long)
        sc = max(float(np.max(np.abs(pt - pt[0]))), 1e-300)
        mx = float(inner.max())
        tol = max(numeric.REL * mx, 1e-12 * sc, eps)
        F = [p + 1 + int(j) for j in np.nonzero(d[Sa[p:q - 1] - a] >= mx - tol)[0]]
        if probe[0] < 6 and b - a <= 3000:                              # machinery: agreement with the shared oracle
            probe[0] += 1
            ref = set(oracles.far_set(P, a, b, spec["distance"]))
            if F != [x for x in range(p + 1, q) if S[x - 1] in ref]:
                raise tlc.TLCFailure("C04 scale: vectorised far set differs from oracles.far_set on %s (%d, %d)" % (cid, a, b))
        return c, F

    case, st = _certify(cid, n, S, tab, adj, nodecap)
    if case is not None:
        st["steps"] = simpl.steps_of(ev)
    return case, st


def _tighter(t, cost):
    return 1.0 - (1.0 - t) / 16.0 if cost == "r2" else t / 16.0


def _record_scale(item):
    """worker: builds the curve, replays the base call (deep shapes: tightened until the result is not the bare chord) and,
    when asked, the calls at thresholds harvested from the cost of ranges the base derivation visits (exact ties on long
    ranges).  -> list of (case | None, meta)"""
    cid, recipe, spec, nodecap, harvest, tighten = item
    P = build(recipe)
    dg = _digest(P)
    out = []

    def run1(cid1, spec1):
        case, st = _one_scale(cid1, P, spec1, nodecap)
        out.append((case, {"recipe": recipe, "spec": spec1, "digest": dg, "n": len(P), "stats": st}))
        return case

    base = run1(cid, spec)
    for k in range(tighten):
        if base is None or len(base["S"]) > 8:
            break
        spec = dict(spec, t=_tighter(spec["t"], spec["cost"]))
        base = run1("%s-t%d" % (cid, k), spec)
    if harvest and base is not None:
        rng = random.Random(harvest)
        S = base["S"]
        cand = [nd for nd in base["nodes"] if nd[2] != -1][:24]           # the largest ranges of the derivation
        picks = cand[:1] + (rng.sample(cand[1:], min(2, len(cand) - 1)) if len(cand) > 1 else [])
        seen = {spec["t"]}
        for hi, nd in enumerate(picks):
            v = _value(P, S[nd[0] - 1], S[nd[1] - 1], spec["cost"])
            if not (np.isfinite(v) and v > 0 and (spec["cost"] != "r2" or v <= 1)) or v in seen:
                continue
            seen.add(v)
            run1("%s-h%d" % (cid, hi), dict(spec, t=v))
    return out


def scale_items(ctx):
    rng = ctx.rng
    quick = ctx.quick
    cap = NODECAP_QUICK if quick else NODECAP_THOROUGH
    R = rng.randrange
    recipes = []
    # ---- deep one-sided nestings: (n, steps) just above the usual size thresholds.  Every run has results with more than
    # 128, 256 and 1024 ranges pending at once; the thorough tier goes beyond 8192.
    def stairs(target, gs, Kfix=None):
        w0, g = rng.choice([3, 4, 6]), rng.choice(gs)
        K = Kfix or _stairs_K(target, w0, g)
        return {"shape": "deep_stairs", "n": _stairs_n(K, w0, g), "K": K, "w0": w0, "g": g, "slope": rng.choice([0.02, 0.02, 0.0, 0.1])}
    cfg = [(10001 + R(1, 2500), (1,)), (16385 + R(1, 4000), (1, 2)), (32769 + R(1, 8000), (2, 3)), (65537 + R(1, 9000), (2, 3)),
           (100001 + R(1, 9000), (1, 2))]
    recipes.append((stairs(0, (1,), Kfix=100 + R(0, 30)), "deep"))                 # 5.3 .. 8.4 thousand points, >= 150 pending
    for target, gs in (rng.sample(cfg, 2) if quick else cfg):
        recipes.append((stairs(target, gs), "deep"))
    recipes.append((dict(stairs(*rng.choice(cfg[:3])), mirror=True), "deep"))
    for j, n in enumerate([257 + R(1, 200), 1025 + R(1, 700), 2049 + R(1, 2500)] if quick
                          else [300, 1025 + R(1, 700), 2200, 4097 + R(1, 900), 8193 + R(1, 400)]):
        recipes.append(({"shape": "zigzag", "n": n, "mirror": j != 1 and rng.random() < 0.3}, "deep"))
    for n in ([1025 + R(1, 1200)] if quick else [700, 2049 + R(1, 900), 4097 + R(1, 900), 9000]):
        recipes.append(({"shape": "spikes", "n": n, "period": rng.choice([3, 4, 5])}, "deep"))
    for n, K in ([(4097 + R(1, 4000), 140)] if quick else [(3000, 90), (12000, 180), (40000, 300)]):
        recipes.append(({"shape": "sawtooth", "n": n, "K": K + R(0, 30)}, "deep"))
    # ---- long production-like curves at sizes just above 2^10 .. 10^5
    sz = scale.sizes(ctx, lo=1000, hi=110000, k_quick=4, k_thorough=10)
    long_shapes = [lambda n: {"shape": "mrc", "n": n, "K": R(4, 40), "seed": R(1 << 30)},
                   lambda n: {"shape": "convex_pl", "n": n, "K": R(5, 400)},
                   lambda n: {"shape": "valley", "n": n, "seed": R(1 << 30)},
                   lambda n: {"shape": "staircase", "n": n, "K": R(20, 600), "seed": R(1 << 30), "grow": rng.random() < 0.5},
                   lambda n: {"shape": "jitter_line", "n": n, "amp": rng.choice([2.0, 8.0, 32.0]), "len": R(64, 400), "seed": R(1 << 30)},
                   lambda n: {"shape": "elbow", "n": n, "corner": R(n // 10, n - n // 10)}]
    for n in sz:
        for mk in (rng.sample(long_shapes, 3) if quick else long_shapes):
            recipes.append((mk(n), "long"))
    items = []
    combos = [(c, d) for c in simpl.COSTS for d in simpl.DISTANCES]
    for ri, (rc, fam) in enumerate(recipes):
        # (the collinear staircase keeps its nesting under an affine change of x only)
        rc["x"] = rng.choice(["unit", "quarter"] if rc["shape"] == "deep_stairs" else ["unit", "unit", "quarter", "ragged"])
        if fam == "deep":
            # every metric at its tight threshold (this is what makes every step a knee); both distances in the thorough tier
            for c, d in ([(c, rng.choice(simpl.DISTANCES)) for c in simpl.COSTS] if quick else combos):
                items.append(("s%d-%s-%s-%s" % (ri, rc["shape"], c, d), rc, {"f": "rdp", "t": TIGHT[c], "distance": d, "cost": c},
                              cap, R(1, 1 << 30) if rng.random() < (0.4 if quick else 0.6) else 0, 3))
        else:
            for c, d in rng.sample(combos, 3 if quick else 6):
                t = rng.choice([TIGHT[c], LOOSE[c], LOOSE[c]])
                items.append(("s%d-%s-%s-%s" % (ri, rc["shape"], c, d), rc, {"f": "rdp", "t": t, "distance": d, "cost": c},
                              cap, R(1, 1 << 30), 0))
    return items


def _cert_from_tables(c, cid):
    """the certificate of a small case whose FULL tables are known (static self-test case, cross-check of the two validators)"""
    S = c["S"]
    pos = {v: j + 1 for j, v in enumerate(S)}
    adj = [CLS.get(c["cls"][j][j + 1], 0) for j in range(len(S) - 1)]

    def tab(p, q):
        return CLS[c["cls"][p - 1][q - 1]], sorted(pos[v] for v in c["far"][p - 1][q - 1] if v in pos and p < pos[v] < q)

    case, _ = _certify(cid, c["n"], S, tab, adj, 10 ** 9)
    return case


def _scale_selftests():
    good = _cert_from_tables(static_cases.get("C04"), "static")
    S = good["S"]
    out = [(good, "ok")]
    j = next(j for j in range(len(S) - 1) if S[j + 1] - S[j] > 1)
    out.append((dict(good, adj=[1 if x == j else v for x, v in enumerate(good["adj"])]), "retained-segment-fits"))
    out.append((dict(good, nodes=[good["nodes"][0][:5] + [0] + good["nodes"][0][6:]] + good["nodes"][1:]), "split-was-needed"))
    out.append((dict(good, nodes=[good["nodes"][0][:6] + [[]]] + good["nodes"][1:]), "split-at-farthest"))
    x = next(x for x, nd in enumerate(good["nodes"]) if nd[3] > 0 or nd[4] > 0)
    nd = list(good["nodes"][x])
    nd[3], nd[4] = nd[4], nd[3]                                             # children swapped: not a derivation
    out.append((dict(good, nodes=good["nodes"][:x] + [nd] + good["nodes"][x + 1:]), "bad-certificate"))
    return out


def _warm():
    """numba compiles the metric kernels once, in the parent; the forked recording workers inherit the compiled code"""
    P = np.column_stack([np.arange(8.0), [9.0, 7.0, 6.0, 3.0, 2.5, 2.0, 1.8, 1.7]])
    for c in simpl.COSTS:
        for d in simpl.DISTANCES:
            simpl.call(P, {"f": "rdp", "t": 0.001, "distance": d, "cost": c})


def _record_batch(b):
    kind, payload = b
    if kind == "scale":
        return kind, _record_scale(payload)
    return kind, [_record(it) for it in payload]


class _Async:
    """ctx.trace on a private copy of the counters, in a thread (the two validators run side by side); join() merges the
    counters into ctx and returns the rejections (or re-raises)."""

    def __init__(self, ctx, *a, **kw):
        import copy
        import threading
        self.ctx, self.sub = ctx, copy.copy(ctx)
        self.sub.states = self.sub.transitions = self.sub.traces = 0
        self.sub.extra, self.sub.tlc_runs = {}, []
        self.out = self.err = None

        def work():
            try:
                self.out = self.sub.trace(*a, **kw)
            except BaseException as ex:         # re-raised by join()
                self.err = ex
        self.th = threading.Thread(target=work)
        self.th.start()

    def join(self):
        self.th.join()
        c, s = self.ctx, self.sub
        c.states += s.states
        c.transitions += s.transitions
        c.traces += s.traces
        c.tlc_runs += s.tlc_runs
        for k, v in s.extra.items():
            c.extra[k] = c.extra.get(k, 0) + v
        if self.err is not None:
            raise self.err
        return self.out


def scale_trace(ctx, res, small_cases):
    """starts Trace_ExplainScale on the scale cases + the cross-check certificates of small cases; -> (cases, meta, xcases, handle)"""
    cases = [c for c, _ in res if c is not None]
    meta = {c["id"]: m for c, m in res if c is not None}
    # cross-check of the two validators: certificates of small cases (full tables) must get the verdict ExplainClause gives
    xs = small_cases[:: max(1, len(small_cases) // (300 if ctx.quick else 1500))]
    xcases = [x for x in (_cert_from_tables(c, "x-" + c["id"]) for c in xs) if x is not None]
    allc = cases + xcases
    runs = 3 if ctx.quick else 8
    h = _Async(ctx, "Trace_ExplainScale", allc, selftest=_scale_selftests(), chunk=max(8, -(-(len(allc) + 5) // runs)), procs=runs)
    return cases, meta, xcases, h


def scale_evidence(ctx, res):
    agg = {"calls": len(res), "validated": 0, "not_validated": {}, "sizes": sorted({m["n"] for _, m in res}),
           "shapes": {}, "max_retained": 0, "max_pending": 0, "pending_over_128": 0, "pending_over_1024": 0,
           "nodes_checked": 0, "open_nodes": 0, "tie_nodes": 0, "harvested_tie_calls": 0, "longest_judged_range": 0}
    for c, m in res:
        if c is None:
            agg["not_validated"][m["stats"]] = agg["not_validated"].get(m["stats"], 0) + 1
            continue
        st = m["stats"]
        S = c["S"]
        agg["validated"] += 1
        agg["shapes"][m["recipe"]["shape"]] = agg["shapes"].get(m["recipe"]["shape"], 0) + 1
        agg["max_retained"] = max(agg["max_retained"], st["k"])
        agg["max_pending"] = max(agg["max_pending"], st["pending"])
        agg["pending_over_128"] += st["pending"] > 128
        agg["pending_over_1024"] += st["pending"] > 1024
        agg["nodes_checked"] += st["expanded"]
        agg["open_nodes"] += st["open"]
        agg["tie_nodes"] += st["ties"]
        agg["harvested_tie_calls"] += "-h" in c["id"]
        agg["longest_judged_range"] = max([agg["longest_judged_range"]] + [S[j + 1] - S[j] for j in range(len(S) - 1)]
                                          + ([m["n"] - 1] if c["nodes"] else []))
        nt = len(S) >= 3 and any(S[j + 1] - S[j] > 1 for j in range(len(S) - 1))
        ctx.count((m["digest"], m["spec"]), nt)
    ctx.extra["scale"] = agg
    if agg["not_validated"]:
        ctx.note("scale family: calls that were not judged (no well-formed reduction returned = C01's domain; search for a "
                 "derivation among tied farthest points over budget): %s" % agg["not_validated"])
    if any(k != "tie-search-budget" for k in agg["not_validated"]):
        pass                                           # a library that does not return on long inputs: nothing to be vacuous about
    elif agg["pending_over_128"] < 5 or agg["pending_over_1024"] < 1 or agg["longest_judged_range"] < 50000:
        ctx.note("VACUOUS-SCALE-FAMILY (what the family was built to reach did not occur in this run; a note, not a failure: see DESIGN 11.8): %s" % (agg,)); ctx.extra.setdefault("scale_vacuous", True)


def run(ctx):
    ctx.rule = ("rdp.rdp on adversarial, grid, random and bundled-trace curves x 5 metrics x 2 distances x thresholds "
                "(fixed and harvested from observed segment costs = exact ties); non-trivial: at least one interior "
                "index retained (a split to explain) and at least one retained segment with interior points. "
                "Scale family: rdp.rdp on deep one-sided nestings (growing staircases and their mirrors, zigzags, spike trains, "
                "sawteeth: 130 .. 10^4 ranges pending at once) and on long production-like curves (2^10 .. 10^5 points) x 5 metrics "
                "x 2 distances x tight / loose / harvested-tie thresholds x 3 abscissa layouts, judged by Trace_ExplainScale from a "
                "certificate with sparse tables (all adjacent pairs + the ranges of the derivation)")
    ctx.assumptions += numeric.ASSUMPTIONS + [
        "cost classes are bit-exact comparisons of the metric primitive (linear_fit.<metric>_points, chosen by name) on the identical sub-array with t (R2 inverted); "
        "NaN costs are class 'nan' (either side allowed)",
        "far sets: interior indices within max(1e-9*max, 1e-12*scale, eps) of the maximal library distance",
        "results with more than %d retained points are not validated (table size) in the small families" % KMAX,
        "scale family: Trace_ExplainScale checks a certificate found by a complete search in the harness (same semantics as "
        "ExplainClause; agreement of the two validators is cross-checked on small cases in every run); certificates beyond "
        "%d / %d (quick / thorough) nodes keep their largest ranges and leave the rest open (leaves still judged)"
        % (NODECAP_QUICK, NODECAP_THOROUGH)]
    ctx.mc("Rdp", "MC_Rdp", need_actions=("RdpAccept", "RdpSplit", "Finish"))
    _warm()
    items = inputs(ctx)
    sitems = sorted(scale_items(ctx), key=lambda it: -it[1]["n"])          # drawn after the small families: their stream is unchanged
    batches = [("scale", it) for it in sitems] + [("small", items[j:j + 40]) for j in range(0, len(items), 40)]
    out = par.pmap(_record_batch, batches, chunksize=1)
    rec = [r for kind, rs in out if kind == "small" for r in rs if r is not None]
    sres = [r for kind, rs in out if kind == "scale" for r in rs]
    cases = [c for c, _ in rec]
    meta = {c["id"]: m for c, m in rec}
    scases, smeta, xcases, handle = scale_trace(ctx, sres, cases)
    try:
        rej = ctx.trace("Trace_Simplify", cases, selftest=_selftests(), chunk=600)
    finally:
        srej = handle.join()
    for c in cases:
        S = c["S"]
        nt = len(S) >= 3 and any(S[j + 1] - S[j] > 1 for j in range(len(S) - 1))
        ctx.count((meta[c["id"]]["points"], meta[c["id"]]["spec"]), nt)
    ctx.extra["calls_not_validated"] = len(items) - len(cases)
    for cid, vs in rej.items():
        m = meta[cid]
        ctx.violation(vs[0][0], {"kind": "T", "points": m["points"], "spec": m["spec"]}, {"verdict": vs[0]})
    big = max(cases, key=lambda c: len(c["S"]) if len(c["S"]) <= 8 else 0)
    ctx.sample({"binding": "T", "call": meta[big["id"]], "case": big})
    # ---- scale family
    bad = [(cid, vs) for cid, vs in srej.items() if any(v[0] == "bad-certificate" for v in vs)]
    if bad:
        raise tlc.TLCFailure("C04 scale: the harness built a malformed certificate: %s" % bad[:3])
    for x in xcases:                                   # the two validators must agree on the small cases
        if (x["id"] in srej) != (x["id"][2:] in rej):
            raise tlc.TLCFailure("C04: Trace_Simplify and Trace_ExplainScale disagree on %s: %s / %s" %
                                 (x["id"][2:], rej.get(x["id"][2:]), srej.get(x["id"])))
    ctx.extra["validators_cross_checked_on"] = len(xcases)
    for cid, vs in srej.items():
        if cid.startswith("x-"):
            continue
        m = smeta[cid]
        for v in vs:                                   # one report per clause the result breaks
            ctx.violation(v[0], {"kind": "T-scale", "recipe": m["recipe"], "spec": m["spec"], "digest": m["digest"]},
                          {"verdict": v, "n": m["n"], "stats": m["stats"]})
    if scases:
        deep = max(scases, key=lambda c: smeta[c["id"]]["stats"]["pending"])
        m = smeta[deep["id"]]
        ctx.sample({"binding": "T-scale", "recipe": m["recipe"], "spec": m["spec"], "n": m["n"], "stats": m["stats"], "case": deep})
    scale_evidence(ctx, sres)


def replay(ctx, obj):
    c = obj["case"]
    if c.get("kind") == "T-scale":
        P = build(c["recipe"])
        if _digest(P) != c.get("digest"):
            print("replay: the recipe no longer builds the recorded curve (digest differs); replaying what it builds now")
        case, st = _one_scale("replay", P, c["spec"], NODECAP_THOROUGH)
        if case is None:
            print("replay: call not validated (%s; C01's domain)" % st)
            return
        for cid, vs in ctx.trace("Trace_ExplainScale", [case]).items():
            for v in vs:
                ctx.violation(v[0], c, {"verdict": v, "n": len(P), "stats": st})
        return
    r = _record(("replay", c["points"], c["spec"]))
    if r is None:
        print("replay: call did not return a reduction (C01's domain)")
        return
    rej = ctx.trace("Trace_Simplify", [r[0]])
    for cid, vs in rej.items():
        ctx.violation(vs[0][0], c, {"verdict": vs[0]})
