"""C04 - threshold RDP keeps a segment only if it fits and splits only where it must.
M: MC_Rdp (OutputExplainable: the machine's output is explainable by its own oracle, every oracle, n<=7).
T: rdp.rdp results + class/far tables from the library's primitives judged by ExplainClause (Trace_Simplify)."""
import numpy as np

from harness import curves, numeric, oracles, par, simpl, static_cases

KMAX = 40


def _record(item):
    cid, P, spec = item
    P = np.asarray(P, float)
    ev = simpl.call(P, spec)
    if ev["outcome"] != "returned":
        return None
    S = ev["reduced"]
    n = len(P)
    ok = len(S) >= 2 and S[0] == 0 and S[-1] == n - 1 and all(S[j] < S[j + 1] for j in range(len(S) - 1))
    if not ok or len(S) > KMAX:
        return None
    k = len(S)
    cls = [["-"] * k for _ in range(k)]
    far = [[[] for _ in range(k)] for _ in range(k)]
    for p in range(k):
        for q in range(p + 1, k):
            cls[p][q] = oracles.cost_class(P, S[p], S[q], spec["t"], spec["cost"])
            if q > p + 1:
                far[p][q] = oracles.far_set(P, S[p], S[q], spec["distance"])
    return {"id": cid, "kind": "explain", "n": n, "S": S, "cls": cls, "far": far}, \
           {"points": P.tolist(), "spec": spec}


def inputs(ctx):
    rng = ctx.rng
    cs = curves.adversarial()
    grid = []
    for n in (3, 4, 5, 6):
        grid += curves.grid_curves(n, 3 if n < 6 else 2, spacings=(1, 2, 3))
    cs += rng.sample(grid, 250) if ctx.quick else grid
    cs += [curves.random_curve(rng, 3, 50 if ctx.quick else 150) for _ in range(250 if ctx.quick else 2500)]
    cs += curves.trace_windows(rng, 6 if ctx.quick else 60, 20, 100, names=("web0_reduced.csv", "usr0.csv", "web2.csv"))
    for _ in range(60 if ctx.quick else 500):          # spiky, steep, non-monotone curves
        n = rng.randint(6, 30)
        x = np.cumsum([rng.choice([1, 1, 2, 7]) for _ in range(n)]).astype(float)
        y = np.array([rng.choice([0.5, 1.0, 40.0, 90.0, 200.0]) * rng.random() + 1.0 for _ in range(n)])
        cs.append(curves.mk(x, y))
    # long curves (fast paths / chunking that only start at some size must not change the partition)
    big = []
    for n in ([600, 1500] if ctx.quick else [600, 900, 1500, 2500, 5000]):
        x = np.arange(1, n + 1, dtype=float)
        base = 100.0 / np.sqrt(x)
        alt = base.copy(); alt[1::2] *= 0.9                              # every second sample lower
        rip = base * (1.0 + 0.05 * np.sin(x * 2.0 * np.pi / 3.0))        # period-3 ripple
        spk = base.copy(); spk[n // 2 + 1] *= 1.8; spk[n // 3 + 1] *= 0.3  # narrow spikes
        noi = base * np.array([1.0 + 0.05 * rng.random() for _ in range(n)])
        big += [curves.mk(x, alt), curves.mk(x, rip), curves.mk(x, spk), curves.mk(x, noi)]
    nbig = len(big)
    cs = big + cs
    items = []
    for ci, P in enumerate(cs):
        combos = [(c, d) for c in simpl.COSTS for d in simpl.DISTANCES]
        if ci < nbig:
            for c, d in rng.sample(combos, 4):
                for ti, t in enumerate([0.5, 0.2, 0.08] if c != "r2" else [0.5, 0.9]):
                    items.append(("big%d-%s-%s-%d" % (ci, c, d, ti), P.tolist(), {"f": "rdp", "t": t, "distance": d, "cost": c}))
            continue
        ci -= nbig
        if ci >= 19:
            combos = rng.sample(combos, 3 if ctx.quick else 6)
        ci += nbig
        for c, d in combos:
            ts = [0.01, 0.1, 0.5] + simpl.harvest_thresholds(P, c, rng, 3)
            if c == "r2":
                ts = [t for t in ts if t <= 1] + [0.9, 0.99]
            for ti, t in enumerate(rng.sample(ts, min(len(ts), 3))):
                items.append(("c%d-%s-%s-%d" % (ci, c, d, ti), P.tolist(), simpl.maybe_int(rng, P, {"f": "rdp", "t": t, "distance": d, "cost": c})))
    return items


def _selftests():
    c = static_cases.get("C04")
    S = c["S"]
    out = [(c, "ok")]
    j = next(j for j in range(len(S) - 1) if S[j + 1] - S[j] > 1)
    cc = dict(c, cls=[list(r) for r in c["cls"]])
    cc["cls"][j][j + 1] = "reject"                      # a retained segment that does not fit
    out.append((cc, "retained-segment-fits"))
    cc = dict(c, cls=[list(r) for r in c["cls"]])
    cc["cls"][0][len(S) - 1] = "accept"                 # the whole curve fits, yet it was split
    out.append((cc, "split-was-needed"))
    out.append((dict(c, far=[[[] for _ in r] for r in c["far"]]), "split-at-farthest"))
    return out


def run(ctx):
    ctx.rule = ("rdp.rdp on adversarial, grid, random and bundled-trace curves x 5 metrics x 2 distances x thresholds "
                "(fixed and harvested from observed segment costs = exact ties); non-trivial: at least one interior "
                "index retained (a split to explain) and at least one retained segment with interior points")
    ctx.assumptions += numeric.ASSUMPTIONS + [
        "cost classes are bit-exact comparisons of the metric primitive (linear_fit.<metric>_points, chosen by name) on the identical sub-array with t (R2 inverted); "
        "NaN costs are class 'nan' (either side allowed)",
        "far sets: interior indices within max(1e-9*max, 1e-12*scale, eps) of the maximal library distance",
        "results with more than %d retained points are not validated (table size)" % KMAX]
    ctx.mc("Rdp", "MC_Rdp", need_actions=("RdpAccept", "RdpSplit", "Finish"))
    items = inputs(ctx)
    rec = [r for r in par.pmap(_record, items) if r is not None]
    cases = [c for c, _ in rec]
    meta = {c["id"]: m for c, m in rec}
    rej = ctx.trace("Trace_Simplify", cases, selftest=_selftests(), chunk=600)
    for c in cases:
        S = c["S"]
        nt = len(S) >= 3 and any(S[j + 1] - S[j] > 1 for j in range(len(S) - 1))
        ctx.count((meta[c["id"]]["points"], meta[c["id"]]["spec"]), nt)
    ctx.extra["calls_not_validated"] = len(items) - len(cases)
    for cid, vs in rej.items():
        m = meta[cid]
        ctx.violation(vs[0][0], {"kind": "T", "points": m["points"], "spec": m["spec"]}, {"verdict": vs[0]})
    big = max(cases, key=lambda c: len(c["S"]) if len(c["S"]) <= 8 else 0)
    ctx.sample({"binding": "T", "call": meta[big["id"]], "case": big})


def replay(ctx, obj):
    c = obj["case"]
    r = _record(("replay", c["points"], c["spec"]))
    if r is None:
        print("replay: call did not return a reduction (C01's domain)")
        return
    rej = ctx.trace("Trace_Simplify", [r[0]])
    for cid, vs in rej.items():
        ctx.violation(vs[0][0], c, {"verdict": vs[0]})
