"""C20 - public functions are pure, deterministic, layout-independent and fully linked.
Dynamic half (Purity.tla, binding T): every public function is called on the same values as C-ordered float64, the same
objects again, Fortran-ordered, strided views and int64; argument digests before/after and result classes form a call
history that TLC judges.  Static half (Linkage.tla): name / attribute / call-signature resolution rules evaluated by TLC
over AST facts of every module and dir()/signature tables of the imported objects."""
import hashlib
import inspect
import json
import math
import os
import random
import types

import numpy as np

from harness import astfacts, monitor, numeric, par, recipes

VARIANTS = ["C", "again", "F", "view", "int"]


def _digest(a):
    if isinstance(a, np.ndarray):
        return "nd:%s:%s:%s" % (a.dtype, a.shape, hashlib.sha256(np.ascontiguousarray(a).tobytes()).hexdigest()[:16])
    if isinstance(a, (list, tuple)):
        return "seq:%s:[%s]" % (type(a).__name__, ",".join(_digest(v) for v in a))
    if isinstance(a, dict):
        return "dict"      # a cache argument may legitimately be filled
    if isinstance(a, (int, float, str, bool, type(None))):
        return repr(a)
    return "obj:%s" % getattr(a, "__name__", type(a).__name__)


def _variant(a, kind):
    """the same VALUES in another representation"""
    if not isinstance(a, np.ndarray):
        return a
    if a.dtype.kind in "iu":        # index arrays: only the memory layout changes
        if kind == "view" and a.ndim == 1:
            w = np.zeros(len(a) * 3, dtype=a.dtype)
            w[::3] = a
            return w[::3]
        if kind == "view" and a.ndim == 2:
            w = np.zeros((a.shape[0] * 2, a.shape[1] * 2), dtype=a.dtype)
            w[::2, ::2] = a
            return w[::2, ::2]
        return a.copy()
    b = np.ascontiguousarray(a, dtype=np.float64)
    if kind == "F":
        return np.asfortranarray(b)
    if kind == "view":
        if b.ndim == 1:
            w = np.full(len(b) * 2 + 1, -77.0)
            w[1::2] = b
            return w[1::2]
        w = np.full((b.shape[0] * 2, b.shape[1] * 2 + 1), -77.0)
        w[::2, 1::2] = b
        return w[::2, 1::2]
    if kind == "int":
        # only a representation change: arrays with non-integral values stay float64
        return b.astype(np.int64) if np.all(b == np.floor(b)) and np.all(np.abs(b) < 2 ** 52) else b.copy()
    return b.copy()


def _norm(v):
    """result -> JSON-able canonical form: ints exact, floats as floats, containers recursively"""
    if isinstance(v, np.ndarray):
        if v.dtype.kind in "iub":
            return ["i"] + [int(x) for x in v.ravel().tolist()] + ["shape", list(v.shape)]
        return ["f"] + [float(x) for x in v.ravel().tolist()] + ["shape", list(v.shape)]
    if isinstance(v, (np.integer, int)) and not isinstance(v, bool):
        return int(v)
    if isinstance(v, (np.floating, float)):
        return float(v)
    if isinstance(v, (list, tuple)):
        return [_norm(x) for x in v]
    if isinstance(v, dict):
        return {str(k): _norm(x) for k, x in sorted(v.items(), key=lambda kv: str(kv[0]))}
    if v is None or isinstance(v, (bool, str)):
        return v
    return str(v)


def _same(a, b, exact_only=False):
    if isinstance(a, float) or isinstance(b, float):
        if isinstance(a, (int, float)) and isinstance(b, (int, float)) and not isinstance(a, bool) and not isinstance(b, bool):
            if math.isnan(a) and math.isnan(b):
                return True
            return a == b or (not exact_only and numeric.close(a, b, rel=1e-12, ab=1e-300))
        return False
    if isinstance(a, list) and isinstance(b, list):
        # an int-typed and a float-typed array with the same values are the same result
        if a and b and a[0] in ("i", "f") and b[0] in ("i", "f"):
            return len(a) == len(b) and all(_same(float(x) if isinstance(x, (int, float)) and not isinstance(x, bool) else x,
                                                  float(y) if isinstance(y, (int, float)) and not isinstance(y, bool) else y)
                                            for x, y in zip(a[1:], b[1:]))
        return len(a) == len(b) and all(_same(x, y) for x, y in zip(a, b))
    if isinstance(a, dict) and isinstance(b, dict):
        return a.keys() == b.keys() and all(_same(a[k], b[k]) for k in a)
    if isinstance(a, (int,)) and isinstance(b, (int,)) and not isinstance(a, bool) and not isinstance(b, bool):
        return a == b
    return a == b


def _churn(k):
    """recycle small heap blocks with non-zero contents, so that a result that depends on uninitialised memory
    (np.empty) does not happen to see zeros on every call"""
    value = [0.0, 99.0, -3.0, 7.5, 1e6, float("nan")][k % 6]
    for m in range(1, 12):
        junk = [np.full(m, value, dtype=float) for _ in range(16)]
        del junk


def _history(item):
    """call one recipe in every variant; returns the case for Purity.tla"""
    name, seed, wk = item
    R = recipes.recipes()
    fn, mk = R[name]
    events = []
    results = []
    base_objs = None
    for integral in (False, True):
        W = recipes.World(random.Random(seed), integral)
        args0, kw0 = mk(W)
        kinds = ["C", "again", "F", "view"] if not integral else ["C", "again", "int"]
        for kind in kinds:
            if kind == "again" and base_objs is not None:
                args = base_objs
            else:
                args = [_variant(a, "C" if kind == "again" else kind) for a in args0]
                args = [list(a) if isinstance(a, list) else a for a in args]
            if kind == "C":
                base_objs = args
            before = [_digest(a) for a in args]
            _churn(len(events))
            out, val, _ = monitor.call(fn, tuple(args), dict(kw0), budget=400000, wall=40)
            after = [_digest(a) for a in args]
            mutated = ["arg%d" % k for k in range(len(args)) if before[k] != after[k]]
            res = {"outcome": out, "value": _norm(val) if out == "returned" else str(val)[:200]}
            # result class: index of the first earlier result (same world) it equals
            world_results = [r for r in results if r[0] == integral]
            cls = None
            for j, (_, r) in enumerate(world_results):
                if r["outcome"] == res["outcome"] and (res["outcome"] != "returned" or _same(r["value"], res["value"])):
                    cls = j
                    break
            if cls is None:
                cls = len(world_results)
            results.append((integral, res))
            events.append({"variant": kind, "world": "int" if integral else "float", "mutated": mutated,
                           "resclass": "%s-%d" % ("int" if integral else "float", cls),
                           "outcome": out, "shown": json.dumps(res["value"])[:160] if out == "returned" else res["value"]})
    # the caller updates its arrays IN PLACE and calls again: the result must be the one for the new contents (a cache keyed by
    # the identity of an argument, `is` / id(), would answer for the old ones)
    reuse = None
    try:
        W1 = recipes.World(random.Random(seed), False)
        W2 = recipes.World(random.Random(seed + 1), False)
        a1, kw1 = mk(W1)
        a2, kw2 = mk(W2)

        def mirrored(a):      # the same curve mirrored vertically (a convex decay becomes concave: other hull, other knees)
            if isinstance(a, np.ndarray) and a.ndim == 2 and a.shape[1] == 2 and a.dtype.kind == "f":
                b = a.copy()
                b[:, 1] = a[:, 1].max() - a[:, 1] + a[:, 1].min()
                return b
            return a
        for a_new, kw_new in ((a2, kw2), ([mirrored(a) for a in a1], kw1)):
            objs = [_variant(a, "C") for a in a1]
            monitor.call(fn, tuple(objs), dict(kw1), budget=400000, wall=40)
            same_shape = all((not isinstance(o, np.ndarray)) or (isinstance(b, np.ndarray) and o.shape == b.shape and o.dtype == b.dtype)
                             for o, b in zip(objs, a_new))
            if not (same_shape and any(isinstance(o, np.ndarray) for o in objs)):
                continue
            for o, b in zip(objs, a_new):
                if isinstance(o, np.ndarray):
                    o[...] = b
            args_reuse = [o if isinstance(o, np.ndarray) else b for o, b in zip(objs, a_new)]
            o1, v1, _ = monitor.call(fn, tuple(args_reuse), dict(kw_new), budget=400000, wall=40)
            o2, v2, _ = monitor.call(fn, tuple(_variant(a, "C") for a in a_new), dict(kw_new), budget=400000, wall=40)
            if o1 != o2 or (o1 == "returned" and not _same(_norm(v1), _norm(v2))):
                reuse = {"reused_objects": json.dumps(_norm(v1))[:160] if o1 == "returned" else o1,
                         "fresh_objects": json.dumps(_norm(v2))[:160] if o2 == "returned" else o2}
                break
    except Exception:
        reuse = None
    # round 17: two more histories of the same kind.  (a) the caller's arrays are READ-ONLY (np.frombuffer, a memory map, pandas
    # copy-on-write): a function that does not modify its arguments needs no write access - an in-place operation that happens to
    # leave the values unchanged (sorting a sorted array) is invisible to the digests above but raises here.  (b) the caller
    # overwrites the arrays it was RETURNED and calls again with the same values: a result handed out by reference from a memo
    # table comes back scribbled.
    extra = {}
    try:
        W1 = recipes.World(random.Random(seed), False)
        a1, kw1 = mk(W1)
        plain = [_variant(a, "C") for a in a1]
        o0, v0, _ = monitor.call(fn, tuple(plain), dict(kw1), budget=400000, wall=40)
        if o0 == "returned":
            n0 = _norm(v0)
            ro = [_variant(a, "C") for a in a1]
            for a in ro:
                if isinstance(a, np.ndarray):
                    a.setflags(write=False)
            o1, v1, _ = monitor.call(fn, tuple(ro), dict(kw1), budget=400000, wall=40)
            if o1 != "returned" or not _same(n0, _norm(v1)):
                extra["readonly"] = {"writeable_arguments": json.dumps(n0)[:160], "read_only_arguments": json.dumps(_norm(v1))[:160] if o1 == "returned" else "%s %s" % (o1, str(v1)[:160])}

            def scribble(v):
                if isinstance(v, np.ndarray) and v.flags.writeable and v.size:
                    try:
                        v[...] = v + 1 if v.dtype.kind in "iuf" else v
                    except (ValueError, TypeError):
                        pass
                elif isinstance(v, (tuple, list)):
                    for w in v:
                        scribble(w)
            scribble(v0)
            o2, v2, _ = monitor.call(fn, tuple(_variant(a, "C") for a in a1), dict(kw1), budget=400000, wall=40)
            if o2 != "returned" or not _same(n0, _norm(v2)):
                extra["alias"] = {"first_call": json.dumps(n0)[:160], "after_the_caller_overwrote_the_first_result": json.dumps(_norm(v2))[:160] if o2 == "returned" else "%s %s" % (o2, str(v2)[:160])}
    except Exception:
        extra = {}
    return {"id": "%s#%d" % (name, wk), "fn": name, "events": events, "seed": seed, "wk": wk, "reuse": reuse, "extra": extra}


def _public_inventory():
    import importlib
    import pkgutil
    import kneeliverse
    inv = []
    for m in pkgutil.iter_modules(kneeliverse.__path__):
        mod = importlib.import_module("kneeliverse." + m.name)
        for k, v in vars(mod).items():
            f = getattr(v, "py_func", v)
            if isinstance(f, types.FunctionType) and f.__module__ == mod.__name__ and not k.startswith("_"):
                inv.append("%s.%s" % (m.name, k))
    return sorted(inv)


def _split_cases(case):
    """Purity.tla compares every event of a case with the FIRST one: one case per world."""
    out = []
    for w in ("float", "int", "scale"):
        evs = [e for e in case["events"] if e["world"] == w]
        if evs:
            out.append({"id": "%s@%s" % (case["id"], w), "fn": case["fn"],
                        "events": [{k: e[k] for k in ("variant", "mutated", "resclass")} for e in evs]})
    return out


STATIC = {"id": "static", "fn": "demo.f", "events": [
    {"variant": "C", "mutated": [], "resclass": "float-0"}, {"variant": "again", "mutated": [], "resclass": "float-0"},
    {"variant": "F", "mutated": [], "resclass": "float-0"}, {"variant": "view", "mutated": [], "resclass": "float-0"}]}


def _selftests():
    import copy
    out = [(STATIC, "ok")]
    c = copy.deepcopy(STATIC); c["events"][1]["resclass"] = "float-1"; out.append((c, "nondeterministic"))
    c = copy.deepcopy(STATIC); c["events"][3]["resclass"] = "float-1"; out.append((c, "layout-dependent"))
    c = copy.deepcopy(STATIC); c["events"][0]["mutated"] = ["arg1"]; out.append((c, "argument-mutated"))
    sc = {"id": "static-scale", "fn": "demo.g", "events": [{"variant": v, "mutated": [], "resclass": "scale-0"} for v in SCALE_VARIANTS]}
    out.append((sc, "ok"))
    c = copy.deepcopy(sc); c["events"][4]["resclass"] = "scale-1"; out.append((c, "layout-dependent"))
    c = copy.deepcopy(sc); c["events"][6]["mutated"] = ["arg0"]; out.append((c, "argument-mutated"))
    return out


def _static(ctx):
    src = os.path.join(os.environ.get("KNEE_REPO", "/repo"), "src")
    facts, scopes, defs, aliases = astfacts.extract(src)
    attrs, sigs = astfacts.resolve_tables(facts, scopes, defs, aliases)
    for k, x in enumerate(facts):
        x["id"] = "f%d" % k
        x.setdefault("rooted", False)
        x.setdefault("static_depth", 1)
    tp = os.path.join(ctx.scratch, "tables.json")
    with open(tp, "w") as f:
        json.dump({"scopes": scopes, "defs": defs, "builtins": astfacts.BUILTINS, "attrs": attrs, "sigs": sigs}, f)
    st_ok = {"id": "s", "kind": "name", "module": "kneeliverse.rdp", "function": "rdp", "line": 1, "name": "np", "scope": "kneeliverse.rdp:<module>",
             "rooted": False, "static_depth": 1}
    st_bad = dict(st_ok, name="definitely_not_defined")
    st_attr = {"id": "s", "kind": "attr", "module": "kneeliverse.rdp", "function": "rdp", "line": 1, "chain": ["lf", "no_such_function"],
               "scope": "kneeliverse.rdp:<module>", "rooted": True, "static_depth": 2}
    st_call = {"id": "s", "kind": "call", "module": "kneeliverse.rdp", "function": "rdp", "line": 1, "chain": ["compute_cost_coef"],
               "scope": "kneeliverse.rdp:<module>", "rooted": True, "static_depth": 1, "npos": 1, "star": False, "kw": []}
    st_call_ok = dict(st_call, npos=2)
    rej = ctx.trace("Linkage", facts, env={"TABLES_FILE": tp}, chunk=1200,
                    selftest=[(st_ok, "ok"), (st_bad, "name-unresolved"), (st_attr, "attribute-unresolved"),
                              (st_call, "arity-mismatch"), (st_call_ok, "ok")])
    byid = {x["id"]: x for x in facts}
    ctx.extra["static_facts"] = {"names": sum(1 for x in facts if x["kind"] == "name"),
                                 "attribute_chains": sum(1 for x in facts if x["kind"] == "attr"),
                                 "calls": sum(1 for x in facts if x["kind"] == "call"),
                                 "calls_with_package_signature": sum(1 for x in facts if x["kind"] == "call" and x.get("rooted") and
                                                                     "%s|%s" % (x["module"], ".".join(x["chain"])) in sigs),
                                 "modules": len(defs)}
    for x in facts:
        ctx.count(("static", x["kind"], x["module"], x["function"], x.get("name") or ".".join(x.get("chain", []))),
                  x["kind"] != "name" or x["name"] not in astfacts.BUILTINS)
    seen = set()
    for fid, vs in sorted(rej.items()):
        x = byid[fid]
        what = x.get("name") or ".".join(x["chain"])
        match = "%s:%s:%s:%s" % (vs[0][0], x["module"], x["function"], what)
        if match in seen:
            continue
        seen.add(match)
        ctx.violation(vs[0][0], {"kind": "static", "module": x["module"], "function": x["function"], "line": x["line"], "what": what},
                      {"verdict": vs[0]}, match=match)


def run(ctx):
    ctx.rule = ("dynamic: every public function (inventory from the modules' defs) x one recipe per option value x "
                "{C float64, same objects again, Fortran order, strided view} on a real-valued world and {C float64, int64} on an "
                "integer-valued world; static: every Name load, every attribute chain rooted at a module-level binding, every "
                "call whose callee is a python function of the package.  non-trivial: a fact that is not a builtin name / a "
                "history whose result contains at least one number.  scale: the recipes whose cost allows it, on long integer-valued "
                "curves (sizes from harness/scale.py straddling 2^8..2^16 / 10^4 / 10^5; miss-count, noisy, staircase, convex, valley and "
                "dyadic MRC shapes; x up to 4*10^5, y up to 10^7; a few wide and hundreds of tight knee clusters) in {float64, int64} x "
                "{C, same objects again, Fortran order, strided view} plus an in-place update of the caller's arrays, judged by the "
                "same Purity.tla histories; neighbour curves: at 8193 .. 10^5 points the hull recipes (and every vectorised recipe on some "
                "worlds) are called on a curve and then on a curve of the same length and dtype that differs in ONE sample (a dip / a "
                "spike at a prime index near the middle) in every representation and as an in-place update, judged against the first call "
                "(Purity.tla) and against the result of a fresh process that never saw the first curve")
    ctx.assumptions += [
        "results: index-valued parts identical, real-valued parts equal within rel 1e-12; an int-typed and a float-typed array "
        "with equal values are the same result",
        "dict arguments (explicit caches) are exempt from the unmodified-argument clause",
        "static name resolution is flow-insensitive (a name assigned anywhere in a function is local); attribute chains are "
        "followed through modules and classes only (not instances); signatures are checked for python functions of the package",
        "the AST extractor (harness/astfacts.py) and dir()/inspect of the installed dependencies are trusted"]
    # ---- static half
    _static(ctx)
    # ---- dynamic half
    _tiny_sweep(ctx)
    _history_sweep(ctx)
    R = recipes.recipes()
    inv = _public_inventory()
    driven = set(k.split("[")[0] for k in R)
    gaps = [f for f in inv if f not in driven and f not in recipes.NOT_DRIVEN]
    ctx.extra["public_functions"] = len(inv)
    ctx.extra["public_functions_driven"] = len([f for f in inv if f in driven])
    ctx.extra["not_driven"] = dict(recipes.NOT_DRIVEN, **{g: "NO RECIPE (coverage gap)" for g in gaps})
    nworlds = 3 if ctx.quick else 12
    sitems = _scale_items(ctx)
    titems, ttasks = _twin_items(ctx)
    sitems += titems
    R_s = _scale_recipes()
    sitems.sort(key=lambda it: -(it[2] * (40 if R_s[it[1]][5] else 1) * (0.3 if it[0] == "scale" and it[5] == 2 else 1.0)))
    # the reference tasks of the neighbour family come first: each is the first thing its (freshly forked) worker does
    allh = par.pmap(_dyn_item, ttasks + sitems + [(name, ctx.seed * 1000 + wk, wk) for name in sorted(R) for wk in range(nworlds)], chunksize=1)
    allh = allh[len(ttasks):]
    shist, hist = allh[:len(sitems)], allh[len(sitems):]
    ctx.extra["worlds_per_recipe"] = nworlds
    cases = []
    for h in hist:
        cases += _split_cases(h)
    for h in shist:
        cases += _split_cases(h)
    byname = {h["id"]: h for h in hist}
    rej = ctx.trace("Purity", cases, selftest=_selftests(), chunk=400)
    _scale_judge(ctx, shist, rej)
    rej = {k: v for k, v in rej.items() if not k.startswith("scale:")}
    for h in hist:
        ctx.count(("dyn", h["id"]), any(ch.isdigit() for e in h["events"] for ch in str(e["shown"])))
        name = h["fn"]
        for e in h["events"]:
            if e["outcome"] != "returned" and e["variant"] == "C":
                # a recipe that cannot even run on the plain representation: linkage failures are violations, the rest a gap
                if any(t in e["outcome"] for t in ("NameError", "AttributeError", "UnboundLocalError")) or \
                        ("TypeError" in e["outcome"] and "argument" in str(e["shown"])):
                    ctx.violation("unlinked-at-runtime", {"kind": "dyn", "fn": name, "seed": h["seed"], "wk": h["wk"]},
                                  {"outcome": e["outcome"], "error": e["shown"]}, match="unlinked-at-runtime:%s" % name.split("[")[0])
                else:
                    if h["wk"] == 0:
                        ctx.note("recipe %s does not run on the %s world: %s %s" % (name, e["world"], e["outcome"], e["shown"]))
    for h in hist:
        if h.get("reuse"):
            ctx.violation("stale-after-in-place-update(%s)" % h["fn"].split("[")[0], {"kind": "dyn", "fn": h["fn"], "seed": h["seed"], "wk": h["wk"]},
                          h["reuse"], match="stale-after-in-place-update:%s" % h["fn"].split("[")[0])
    for h in hist:
        for key, clause in (("readonly", "needs-writeable-argument"), ("alias", "result-aliases-hidden-state")):
            if (h.get("extra") or {}).get(key):
                ctx.violation("%s(%s)" % (clause, h["fn"].split("[")[0]), {"kind": "dyn", "fn": h["fn"], "seed": h["seed"], "wk": h["wk"]},
                              h["extra"][key], match="%s:%s" % (clause, h["fn"].split("[")[0]))
    for cid, vs in rej.items():
        h = byname[cid.rsplit("@", 1)[0]]
        name = h["fn"]
        clause = vs[0][0]
        ctx.violation("%s(%s)" % (clause, name.split("[")[0]), {"kind": "dyn", "fn": name, "seed": h["seed"], "wk": h["wk"]},
                      {"verdict": vs[0], "events": [{k: e[k] for k in ("variant", "world", "mutated", "resclass", "outcome", "shown")} for e in h["events"]]},
                      match="%s:%s" % (clause, name.split("[")[0]))
    ctx.traces += 0
    ctx.sample({"binding": "T", "history": hist[len(hist) // 2]})


def replay(ctx, obj):
    c = obj["case"]
    if c["kind"] == "static":
        _static(ctx)
        return
    if c["kind"] == "hist":
        _history_sweep(ctx, only=c["fn"])
        return
    if c["kind"] == "scale" and c.get("twin"):
        path = os.path.join(ctx.scratch, "twinref_replay.pkl")
        if os.path.exists(path):
            os.remove(path)
        _twin_refs([(c["n"], c["shape"], c["wseed"], int(c["twin"]), [c["fn"]], path)])
        h = _twin_history(("twin", c["fn"], c["n"], c["shape"], c["wseed"], int(c["twin"]), path, int(c.get("lite", 0))))
        _scale_judge(ctx, [h], ctx.trace("Purity", _split_cases(h)), quiet=True)
        return
    if c["kind"] == "scale":
        h = _scale_history(("scale", c["fn"], c["n"], c["shape"], c["wseed"], int(c.get("lite", 0))))
        _scale_judge(ctx, [h], ctx.trace("Purity", _split_cases(h)), quiet=True)
        return
    if c["kind"] == "tiny":
        fn, mk = _tiny_calls()[c["fn"]]
        out, val, _ = monitor.call(fn, mk(_tiny_world(c["n"], c["dtype"], c.get("shape", "decay"))), {}, budget=400000, wall=40)
        if out != "returned" and _is_link_error(out, val):
            ctx.violation("unlinked-at-runtime", c, {"outcome": out, "error": str(val)[:200]})
        return
    h = _history((c["fn"], c.get("seed", 0), c.get("wk", 0)))
    if h.get("reuse"):
        ctx.violation("stale-after-in-place-update(%s)" % c["fn"].split("[")[0], c, h["reuse"])
    for key, clause in (("readonly", "needs-writeable-argument"), ("alias", "result-aliases-hidden-state")):
        if (h.get("extra") or {}).get(key):
            ctx.violation("%s(%s)" % (clause, c["fn"].split("[")[0]), c, h["extra"][key])
    rej = ctx.trace("Purity", _split_cases(h))
    for cid, vs in rej.items():
        ctx.violation("%s(%s)" % (vs[0][0], c["fn"].split("[")[0]), c, {"verdict": vs[0], "events": h["events"]})


# ---- the smallest inputs: only LINK failures are judged here (the static clause is about every code path, whatever the
# input; loops that do not execute at all are where a conditionally bound local or a rarely taken branch shows)
def _tiny_calls():
    import kneeliverse.convex_hull as ch
    import kneeliverse.curvature as cu
    import kneeliverse.dfdt as df
    import kneeliverse.kneedle as kn
    import kneeliverse.lmethod as lm
    import kneeliverse.menger as me
    import kneeliverse.rdp as rdp
    import kneeliverse.zmethod as zm
    import kneeliverse.postprocessing as pp
    import kneeliverse.clustering as cl
    P = lambda W: W["P"]
    xy = lambda W: (W["P"][:, 0], W["P"][:, 1])
    C = {"curvature.knee": (cu.knee, lambda W: (P(W),)), "curvature.multi_knee": (cu.multi_knee, lambda W: (P(W),)),
         "dfdt.knee": (df.knee, lambda W: (P(W),)), "dfdt.get_knee": (df.get_knee, xy), "dfdt.multi_knee": (df.multi_knee, lambda W: (P(W),)),
         "menger.knee": (me.knee, lambda W: (P(W),)), "menger.multi_knee": (me.multi_knee, lambda W: (P(W),)),
         "lmethod.knee": (lm.knee, lambda W: (P(W),)), "lmethod.get_knee": (lm.get_knee, xy),
         "lmethod.multi_knee": (lm.multi_knee, lambda W: (P(W),)), "lmethod.multi_knee[t2=3]": (lm.multi_knee, lambda W: (P(W), 0.01, 3)),
         "kneedle.knee": (kn.knee, lambda W: (P(W),)), "kneedle.multi_knee": (kn.multi_knee, lambda W: (P(W),)),
         "zmethod.knees": (zm.knees, lambda W: (W["Z"],)), "zmethod.getPoints": (zm.getPoints, lambda W: (W["Z"],)),
         "rdp.rdp": (rdp.rdp, lambda W: (P(W),)), "rdp.grdp": (rdp.grdp, lambda W: (P(W),)),
         "rdp.rdp_fixed": (rdp.rdp_fixed, lambda W: (P(W), 3)), "rdp.mp_grdp": (rdp.mp_grdp, lambda W: (P(W),)),
         "rdp.min_point_rdp": (rdp.min_point_rdp, lambda W: (P(W),)),
         "convex_hull.graham_scan_lower": (ch.graham_scan_lower, lambda W: (P(W),)),
         "convex_hull.graham_scan_upper": (ch.graham_scan_upper, lambda W: (P(W),)),
         "postprocessing.filter_worst_knees": (pp.filter_worst_knees, lambda W: (P(W), np.array([1]))),
         "postprocessing.filter_corner_knees": (pp.filter_corner_knees, lambda W: (P(W), np.array([1]))),
         "clustering.single_linkage": (cl.single_linkage, lambda W: (P(W), 0.2)), "clustering.complete_linkage": (cl.complete_linkage, lambda W: (P(W), 0.2)),
         "clustering.centroid_linkage": (cl.centroid_linkage, lambda W: (P(W), 0.2)), "clustering.average_linkage": (cl.average_linkage, lambda W: (P(W), 0.2))}
    return C


TINY_SHAPES = {"decay": [20.0, 6.0, 2.0, 1.0, 0.5, 0.25], "nearline": [5.0, 3.0, 2.0, 1.0, 0.0, 0.0], "line": [10.0, 8.0, 6.0, 4.0, 2.0, 0.0],
               "flat": [3.0] * 6, "rise": [0.0, 1.0, 3.0, 7.0, 8.0, 8.5], "bump": [4.0, 9.0, 2.0, 6.0, 1.0, 0.0]}


def _tiny_world(n, dtype, shape="decay"):
    y = np.array(TINY_SHAPES[shape][:n])
    x = np.arange(1, n + 1, dtype=float)
    P = np.column_stack([x, y])
    Z = np.column_stack([x, y / (y.max() + 1.0)])
    if dtype == "int64":
        P = np.column_stack([x, np.floor(y)]).astype(np.int64)
    return {"P": P, "Z": Z}


def _is_link_error(outcome, shown):
    return any(t in outcome for t in ("NameError", "AttributeError", "UnboundLocalError")) or \
        ("TypeError" in outcome and "argument" in str(shown))


def _tiny_sweep(ctx):
    C = _tiny_calls()
    n_calls = 0
    for name in sorted(C):
        fn, mk = C[name]
        for n, dt, shape in [(n, dt, sh) for n in (2, 3, 4, 5, 6) for dt in ("float64", "int64") for sh in sorted(TINY_SHAPES)]:
            if True:
                W = _tiny_world(n, dt, shape)
                out, val, _ = monitor.call(fn, mk(W), {}, budget=400000, wall=40)
                n_calls += 1
                if out != "returned" and _is_link_error(out, val):
                    ctx.violation("unlinked-at-runtime", {"kind": "tiny", "fn": name, "n": n, "dtype": dt, "shape": shape},
                                  {"outcome": out, "error": str(val)[:200]}, match="unlinked-at-runtime:%s" % name.split("[")[0])
    ctx.extra["tiny_input_calls"] = n_calls


# ---- determinism across call HISTORIES: the same call must return the same result whatever was called before it in the
# process (a module-level cache, a mutable default argument keyed by content, a memo keyed by id()).  Two fresh processes run
# every recipe once per world in opposite orders; the results must agree call by call.
def _first_pass(item):
    order, worlds, seed = item
    R = recipes.recipes()
    out = {}
    for name in order:
        fn, mk = R[name]
        for integral in worlds:
            W = recipes.World(random.Random(seed), integral)
            args0, kw0 = mk(W)
            args = [_variant(a, "C") for a in args0]
            args = [list(a) if isinstance(a, list) else a for a in args]
            o, val, _ = monitor.call(fn, tuple(args), dict(kw0), budget=400000, wall=40)
            out["%s|%d" % (name, int(integral))] = {"outcome": o, "value": _norm(val) if o == "returned" else None}
    return out


def _history_sweep(ctx, only=None):
    import multiprocessing as mp
    names = sorted(recipes.recipes())
    seed = ctx.seed * 1000 + 7
    items = [(names, (False, True), seed), (list(reversed(names)), (True, False), seed)]
    with mp.get_context("fork").Pool(2, maxtasksperchild=1) as pool:
        a, b = pool.map(_first_pass, items, chunksize=1)
    diff = 0
    for key in sorted(a):
        name = key.split("|")[0]
        if only is not None and name != only:
            continue
        ra, rb = a[key], b.get(key)
        same = rb is not None and ra["outcome"] == rb["outcome"] and (ra["outcome"] != "returned" or _same(ra["value"], rb["value"]))
        if not same:
            diff += 1
            ctx.violation("history-dependent(%s)" % name.split("[")[0], {"kind": "hist", "fn": name},
                          {"call": key, "first_order": json.dumps(ra)[:200], "reverse_order": json.dumps(rb)[:200]},
                          match="history-dependent:%s" % name.split("[")[0])
    ctx.extra["history_sweep_calls"] = 2 * len(a)
    return diff


# =====================================================================================================================
# ---- scale family: production-size curves (10^3 .. 10^5 points, magnitudes up to x ~ 4*10^5 / y ~ 10^7, hundreds of knees)
# replayed as {float64, int64} x {C, same objects again, Fortran order, strided view} through the functions the small sweep
# drives.  The call history of every (function, world) is judged by the SAME validator (Purity.tla): the case that reaches
# TLC holds only the variant name, the list of mutated arguments and the result class of every call, whatever the size.
# Result classes follow the file's policy (index-valued parts exact, reals within rel 1e-12) widened for long reductions
# by about n * eps; decisions that sit within rounding noise of a tie pin nothing and are removed from the inputs
# (clusters whose two best rankings are closer than 1e-6, a Kneedle concavity vote that is ~0, constant segments).
SCALE_VARIANTS = ("C", "again", "F", "view", "int", "intF", "intview")
SCALE_LITE = ("C", "again", "view", "intF")      # the per-sample python loops at the largest sizes of the quick tier
SCALE_SHAPES = ("misscount", "noisy", "stairs", "convex", "valley", "mrc")
_EPS = 2.220446049250313e-16


def _scale_tol(n):
    return 1e-12 + 4.0 * n * _EPS


def _r2_own(x, y):
    """Pearson r^2 from centred float64 sums (the guard's own arithmetic, independent of the library)."""
    if len(x) <= 2:
        return 1.0
    x = np.asarray(x, dtype=np.float64)
    y = np.asarray(y, dtype=np.float64)
    dx = x - x.mean()
    dy = y - y.mean()
    sxx, syy = float(np.dot(dx, dx)), float(np.dot(dy, dy))
    if sxx == 0.0 or syy == 0.0:
        return float("nan")
    return float(np.dot(dx, dy)) ** 2 / (sxx * syy)


def _cluster_pinned(x, y, ks):
    """True when the best knee of the cluster `ks` is decided beyond rounding noise for the left, linear and right rankings."""
    if len(ks) < 2:
        return True
    j, last = ks[0], ks[-1]
    peak = float(np.max(y[ks]))
    w = np.array([abs(peak - float(y[k])) for k in ks])
    if not w.sum() > 0:
        return False
    w = w / w.sum()
    left = np.array([_r2_own(x[j:k + 1], y[j:k + 1]) for k in ks])
    right = np.array([_r2_own(x[k:last], y[k:last]) for k in ks])
    for fit in (left, right, (left + right) / 2.0):
        r = fit * w
        if not np.all(np.isfinite(r)):
            return False
        top = np.sort(r)[::-1]
        if not (top[0] - top[1] > 1e-6 * max(top[0], 1e-300)):
            return False
    return True


def _threshold_between(x, knees, groups):
    """single-linkage threshold separating the within-cluster gaps from the between-cluster gaps of `groups`"""
    length = float(x[knees[-1]] - x[knees[0]])
    within = [float(x[g[i + 1]] - x[g[i]]) for g in groups for i in range(len(g) - 1)] or [0.0]
    between = [float(x[groups[i + 1][0]] - x[groups[i][-1]]) for i in range(len(groups) - 1)] or [length]
    return (max(within) + min(between)) / 2.0 / length


class _ScaleWorld:
    """One long curve with integer-valued coordinates (so that an int64 representation of the same values exists; `mrc` has
    dyadic non-integral ordinates and is replayed in the float64 layouts only) and everything the recipes need on it."""

    def __init__(self, n, shape, wseed):
        import zlib
        from harness import scale as sc
        self.n, self.shape, self.wseed = n, shape, wseed
        rng = random.Random(zlib.crc32(("%d/%s/%d" % (n, shape, wseed)).encode()))
        nrs = np.random.RandomState(rng.randrange(2 ** 31))
        i = np.arange(n, dtype=np.float64)
        u = i / n
        if shape in ("misscount", "noisy"):
            # miss COUNT curve: misses out of M requests against the cache size; convex decays separated by logistic cliffs
            M = 1e7 if shape == "misscount" else 1e5
            a = [rng.uniform(0.3, 0.5), rng.uniform(0.15, 0.3), rng.uniform(0.1, 0.25), rng.uniform(0.05, 0.15)]
            c1, c2 = rng.uniform(0.18, 0.35), rng.uniform(0.55, 0.75)
            mr = (a[0] * np.exp(-u / rng.uniform(0.02, 0.05)) + a[1] / (1.0 + np.exp((u - c1) / rng.uniform(0.008, 0.02)))
                  + a[2] / (1.0 + np.exp((u - c2) / rng.uniform(0.01, 0.03))) + a[3] * (1.0 - u)) / sum(a)
            y = np.rint(M * mr)
            x = 4.0 * i if shape == "misscount" else np.cumsum(nrs.randint(1, 4, n)).astype(np.float64)
            if shape == "noisy":
                y = np.maximum(0.0, y + nrs.randint(-40, 41, n))
        elif shape == "stairs":
            y = sc.staircase(n, rng.randrange(5, 40), rng)[:, 1] * 1000.0 + (n - i) + nrs.randint(0, 2, n)
            x = np.cumsum(nrs.randint(1, 4, n)).astype(np.float64)
        elif shape == "convex":
            y = sc.convex_pl(n, rng.randrange(4, 60))[:, 1]
            x = i.copy()
        elif shape == "valley":
            y = sc.valley(n, rng)[:, 1] + nrs.randint(0, 3, n)
            x = np.cumsum(nrs.randint(1, 3, n)).astype(np.float64)
        elif shape == "mrc":
            y = sc.mrc(n, rng, knees=rng.randrange(3, 9))[:, 1]
            x = i.copy()
        else:
            raise ValueError(shape)
        assert np.all(np.diff(x) > 0)
        self.x, self.y = np.ascontiguousarray(x), np.ascontiguousarray(y, dtype=np.float64)
        self.P = np.ascontiguousarray(np.column_stack([self.x, self.y]))
        self.integral = bool(np.all(self.y == np.floor(self.y)))
        self.ymag = float(np.max(np.abs(self.y)))
        self.xmag = float(np.max(np.abs(self.x)))
        m = (self.y[-1] - self.y[0]) / (self.x[-1] - self.x[0])
        self.coef = (float(self.y[0] - m * self.x[0]), float(m))
        self.yh = self.y * 0.9 + 0.01 * self.ymag / 64.0
        self.vec = nrs.permutation(n) * 3.0 + 1.0          # distinct values: the order of tied entries pins nothing in a ranking
        # ---- knees: a few WIDE clusters (each spans about a tenth of the curve: long segments inside the rankings) ...
        wide = []
        nc = rng.randrange(2, 4)
        slot = 0.9 / nc
        for c in range(nc):
            base = (0.06 + c * slot + rng.uniform(0.0, 0.03)) * n
            span = rng.uniform(0.30, 0.45) * slot * n
            mcount = rng.randrange(3, 6)
            g = sorted(set(int(base + span * (j + (rng.uniform(-0.25, 0.25) if 0 < j < mcount - 1 else 0.0)) / (mcount - 1))
                           for j in range(mcount)))
            wide.append([k for k in g if 2 <= k <= n - 3])
        # ---- ... and MANY tight clusters of 1-4 knees a few samples apart
        many = []
        pos = rng.randrange(3, 30)
        stride = max(24, n // min(400, max(8, n // 40)))
        while pos < n - 40:
            g, k = [], pos
            for _ in range(rng.randrange(1, 5)):
                g.append(k)
                k += rng.randrange(2, 6)
            many.append(g)
            pos += stride + rng.randrange(0, stride // 2)
        self.dropped_clusters = 0
        for nm, groups in (("wide", wide), ("many", many)):
            kept = [g for g in groups if len(g) >= 1 and _cluster_pinned(self.x, self.y, g)]
            self.dropped_clusters += len(groups) - len(kept)
            if len(kept) < 2:
                kept = [[max(2, n // 5)], [min(n - 3, (4 * n) // 5)]]
            ks = np.array([k for g in kept for k in g], dtype=np.int64)
            setattr(self, "knees_" + nm, ks)
            setattr(self, "groups_" + nm, kept)
            setattr(self, "t_" + nm, _threshold_between(self.x, ks, kept))
        self.cluster = np.array(max(self.groups_wide, key=len), dtype=np.int64)      # ONE cluster (smooth_ranking's argument)
        # ---- a reduced index set (as an RDP would return), what it removed, knees in the reduced space, expected knee points
        R = min(300, max(8, n // 12))
        red = sorted(set([0, n - 1] + [rng.randrange(1, n - 1) for _ in range(R)]))
        self.reduced = np.array(red, dtype=np.int64)
        self.removed = np.array([[red[k - 1], red[k] - red[k - 1] - 1] for k in range(1, len(red))], dtype=np.int64)
        self.rknees = np.array(sorted(rng.sample(range(1, len(red) - 1), min(12, len(red) - 2))), dtype=np.int64)
        sel = self.knees_many[:: max(1, len(self.knees_many) // 40)]
        self.exp = self.P[sel] + np.column_stack([nrs.randint(0, 3, len(sel)), nrs.randint(-2, 3, len(sel))]).astype(np.float64)
        self.Z = np.ascontiguousarray(np.column_stack([self.x, self.y / (self.ymag + 1.0)]))
        d = self.y - (self.coef[0] + self.coef[1] * self.x)
        self.vote_pinned = bool(abs(float(np.sum(d))) > 1e-6 * float(np.sum(np.abs(d))))


def _scale_recipes():
    """name -> (function, args builder on a _ScaleWorld, largest n the recipe is replayed at, absolute noise scale).
    The absolute noise scale (a function of the world, or None) is the magnitude whose rounding the result inherits when
    the function subtracts quantities of that size (residuals against a line through points of magnitude |y|)."""
    import kneeliverse.clustering as cl
    import kneeliverse.convex_hull as ch
    import kneeliverse.curvature as cu
    import kneeliverse.dfdt as df
    import kneeliverse.evaluation as ev
    import kneeliverse.knee_ranking as kr
    import kneeliverse.kneedle as kn
    import kneeliverse.linear_fit as lf
    import kneeliverse.lmethod as lm
    import kneeliverse.menger as me
    import kneeliverse.metrics as mt
    import kneeliverse.postprocessing as pp
    import kneeliverse.rdp as rdp
    import kneeliverse.zmethod as zm
    BIG = 10 ** 9
    R = {}

    HEAVY = ("knee_ranking.slope_ranking", "kneedle.", "menger.knee", "convex_hull.", "postprocessing.filter_clusters[hull", "evaluation.mip",
             "lmethod.")        # a python-level loop over every sample: seconds per call at 10^5 points

    UNIT = ("r2", "get_neighbourhood", "smooth_ranking", "slope_ranking", "accuracy_")      # results that live on the scale of 1
    one = lambda W: 1.0

    def add(name, fn, mk, maxn=BIG, ab=None, need=None):
        if ab is None and any(u in name for u in UNIT):
            ab = one
        R[name] = (fn, mk, maxn, ab, need, name.startswith(HEAVY))

    ymag = lambda W: W.ymag
    for r in mt.R2:
        add("linear_fit.r2[%s]" % r, lf.r2, (lambda r: lambda W: [W.x, W.y, r])(r))
        add("linear_fit.r2_points[%s]" % r, lf.r2_points, (lambda r: lambda W: [W.P, r])(r))
        add("linear_fit.linear_r2[%s]" % r, lf.linear_r2, (lambda r: lambda W: [W.x, W.y, W.coef, r])(r))
        add("linear_fit.linear_r2_points[%s]" % r, lf.linear_r2_points, (lambda r: lambda W: [W.P, W.coef, r])(r))
        add("metrics.r2[%s]" % r, mt.r2, (lambda r: lambda W: [W.y, W.yh, r])(r))
    add("linear_fit.r2[inner]", lf.r2, lambda W: [W.x[W.n // 9: W.n - W.n // 7], W.y[W.n // 9: W.n - W.n // 7]])
    add("linear_fit.linear_fit", lf.linear_fit, lambda W: [W.x, W.y])
    add("linear_fit.linear_fit_points", lf.linear_fit_points, lambda W: [W.P])
    add("linear_fit.linear_transform", lf.linear_transform, lambda W: [W.x, W.coef])
    add("linear_fit.linear_transform_points", lf.linear_transform_points, lambda W: [W.P, W.coef])
    add("linear_fit.linear_hv_residuals", lf.linear_hv_residuals, lambda W: [W.x, W.y])
    add("linear_fit.linear_hv_residuals_points", lf.linear_hv_residuals_points, lambda W: [W.P])
    for v in (False, True):
        add("linear_fit.linear_fit_transform[%s]" % v, lf.linear_fit_transform, (lambda v: lambda W: [W.x, W.y, v])(v), ab=ymag)
        add("linear_fit.linear_fit_transform_points[%s]" % v, lf.linear_fit_transform_points, (lambda v: lambda W: [W.P, v])(v), ab=ymag)
    for nm in ("rmspe", "smape", "rpd", "rmse", "linear_residuals"):
        add("linear_fit.%s" % nm, getattr(lf, nm), lambda W: [W.x, W.y, W.coef])
        add("linear_fit.%s_points" % nm, getattr(lf, nm + "_points"), lambda W: [W.P, W.coef])
    add("linear_fit.linear_fit_residuals", lf.linear_fit_residuals, lambda W: [W.x, W.y])
    add("linear_fit.linear_fit_residuals_points", lf.linear_fit_residuals_points, lambda W: [W.P])
    add("linear_fit.shortest_distance_points", lf.shortest_distance_points, lambda W: [W.P, W.P[0], W.P[-1]], ab=ymag)
    add("linear_fit.perpendicular_distance", lf.perpendicular_distance, lambda W: [W.P], ab=ymag)
    add("linear_fit.perpendicular_distance_index", lf.perpendicular_distance_index, lambda W: [W.P, W.n // 7, W.n - W.n // 5], ab=ymag)
    add("linear_fit.perpendicular_distance_points", lf.perpendicular_distance_points, lambda W: [W.P, W.P[0], W.P[-1]], ab=ymag)
    for nm in ("rmse", "rmspe", "rpd", "residuals", "smape"):
        add("metrics.%s" % nm, getattr(mt, nm), lambda W: [W.y, W.yh])
    add("knee_ranking.distances", kr.distances, lambda W: [W.P[W.n // 3], W.P])
    add("knee_ranking.distance_to_similarity", kr.distance_to_similarity, lambda W: [W.vec])
    add("knee_ranking.rank", kr.rank, lambda W: [W.vec])
    add("knee_ranking.slope_ranking", kr.slope_ranking, lambda W: [W.P, W.knees_many, 0.8])
    for m in (kr.ClusterRanking.left, kr.ClusterRanking.linear, kr.ClusterRanking.right):
        add("knee_ranking.smooth_ranking[%s]" % m, kr.smooth_ranking, (lambda m: lambda W: [W.P, W.cluster, m])(m))
        for cfgn in ("wide", "many"):
            add("postprocessing.filter_clusters[%s,%s]" % (m, cfgn), pp.filter_clusters,
                (lambda m, cfgn: lambda W: [W.P, getattr(W, "knees_" + cfgn), cl.single_linkage, getattr(W, "t_" + cfgn), m])(m, cfgn))
    for cfgn in ("wide", "many"):
        add("postprocessing.filter_clusters[hull,%s]" % cfgn, pp.filter_clusters,
            (lambda cfgn: lambda W: [W.P, getattr(W, "knees_" + cfgn), cl.single_linkage, getattr(W, "t_" + cfgn), kr.ClusterRanking.hull])(cfgn))
    add("postprocessing.filter_corner_knees", pp.filter_corner_knees, lambda W: [W.P, W.knees_many, 0.33])
    add("postprocessing.select_corner_knees", pp.select_corner_knees, lambda W: [W.P, W.knees_many, 0.33])
    add("postprocessing.filter_worst_knees", pp.filter_worst_knees, lambda W: [W.P, W.knees_many])
    add("postprocessing.filter_clusters_corners", pp.filter_clusters_corners, lambda W: [W.P, W.knees_many, cl.complete_linkage, W.t_many])
    add("postprocessing.rank_corners", pp.rank_corners, lambda W: [W.P, W.knees_many])
    add("postprocessing.rank_corners_triangle", pp.rank_corners_triangle, lambda W: [W.P, W.knees_many])
    for e in (False, True):
        add("postprocessing.add_points_even_knees[%s]" % e, pp.add_points_even_knees, (lambda e: lambda W: [W.P, W.knees_wide, 0.02, 0.02, e])(e))
        add("postprocessing.add_points_even[%s]" % e, pp.add_points_even, (lambda e: lambda W: [W.P, W.reduced, W.rknees, W.removed, 0.002, 0.002, e])(e))
    for nm in ("single_linkage", "complete_linkage", "centroid_linkage", "average_linkage"):
        add("clustering.%s" % nm, getattr(cl, nm), lambda W: [W.P[W.knees_many], W.t_many])
    add("convex_hull.graham_scan_lower", ch.graham_scan_lower, lambda W: [W.P])
    add("convex_hull.graham_scan_upper", ch.graham_scan_upper, lambda W: [W.P])
    add("convex_hull.graham_scan", ch.graham_scan, lambda W: [W.P], maxn=40000)
    add("curvature.knee", cu.knee, lambda W: [W.P])
    add("dfdt.knee", df.knee, lambda W: [W.P])
    add("dfdt.get_knee", df.get_knee, lambda W: [W.x, W.y])
    add("menger.knee", me.knee, lambda W: [W.P])
    for cd in kn.Direction:
        for cc in kn.Concavity:
            add("kneedle.differences[%s,%s]" % (cd, cc), kn.differences, (lambda cd, cc: lambda W: [W.P, cd, cc])(cd, cc))
    for p in kn.PeakDetection:
        add("kneedle.knees[%s]" % p, kn.knees, (lambda p: lambda W: [W.P, 1.0, 1.0, p])(p))
    add("kneedle.knee", kn.knee, lambda W: [W.P, 1.0], need="vote_pinned")
    add("lmethod.get_knee", lm.get_knee, lambda W: [W.x, W.y], maxn=10000)
    add("lmethod.knee", lm.knee, lambda W: [W.P], maxn=10000)
    add("evaluation.get_neighbourhood", ev.get_neighbourhood, lambda W: [W.x, W.y, int(W.cluster[-1]), max(0, int(W.cluster[-1]) - 200), 0.9])
    add("evaluation.get_neighbourhood_fast", ev.get_neighbourhood_fast, lambda W: [W.x, W.y, int(W.cluster[-1]), int(W.cluster[0]), 0.9])
    add("evaluation.get_neighbourhood_binary", ev.get_neighbourhood_binary, lambda W: [W.x, W.y, int(W.cluster[-1]), int(W.cluster[0]), 0.9])
    add("evaluation.accuracy_knee", ev.accuracy_knee, lambda W: [W.P, W.knees_many, 0.9])
    add("evaluation.accuracy_trace", ev.accuracy_trace, lambda W: [W.P, W.knees_many])
    for nm in ("mae", "mse", "rmse", "rmspe"):
        for s in ev.Strategy:
            add("evaluation.%s[%s]" % (nm, s), getattr(ev, nm), (lambda s: lambda W: [W.P, W.knees_many, W.exp, s])(s))
    add("evaluation.cm", ev.cm, lambda W: [W.P, W.knees_many, W.exp, 0.001])
    add("evaluation.compute_global_rmse", ev.compute_global_rmse, lambda W: [W.P, W.reduced])
    add("evaluation.mip", ev.mip, lambda W: [W.P, W.reduced])
    for c in mt.Metrics:
        add("evaluation.compute_global_cost[%s]" % c, ev.compute_global_cost, (lambda c: lambda W: [W.P, W.reduced, c])(c))
        add("evaluation.compute_partial_cost[%s]" % c, ev.compute_partial_cost, (lambda c: lambda W: [W.y, W.yh, c])(c))
        add("rdp.compute_cost_coef[%s]" % c, rdp.compute_cost_coef, (lambda c: lambda W: [W.P, W.coef, c])(c))
    for s in (True, False):
        add("rdp.mapping[%s]" % s, rdp.mapping, (lambda s: lambda W: [W.rknees, W.reduced, W.removed if s else W.removed[::-1].copy(), s])(s))
    add("rdp.compute_removed_points", rdp.compute_removed_points, lambda W: [W.P, W.reduced])
    for nm in ("order_triangle", "order_area"):
        add("rdp.%s" % nm, getattr(rdp, nm), lambda W: [W.P, W.n // 3, lf.shortest_distance_points])
    add("rdp.order_segment", rdp.order_segment, lambda W: [W.P, W.n // 3])
    add("rdp.rdp", rdp.rdp, lambda W: [W.P, 0.02])
    add("rdp.rdp_fixed", rdp.rdp_fixed, lambda W: [W.P, 40])
    add("rdp.grdp", rdp.grdp, lambda W: [W.P, 0.02])
    add("zmethod.map_index", zm.map_index, lambda W: [W.x, W.x[W.knees_many]])
    add("zmethod.knees", zm.knees, lambda W: [W.Z, 0.1, 0.05, 0.1])
    return R


def _scale_variant(a, kind):
    """the same VALUES as float64 / int64 in C order, Fortran order or as a strided view; None when the representation does
    not exist for this argument (non-integral values have no int64 form)"""
    if not isinstance(a, np.ndarray):
        return a
    if kind in ("int", "intF", "intview"):
        if a.dtype.kind in "iu":
            return _variant(a, {"int": "C", "intF": "F", "intview": "view"}[kind])
        b = np.ascontiguousarray(a, dtype=np.float64)
        if not (np.all(b == np.floor(b)) and np.all(np.abs(b) < 2 ** 52)):
            return b.copy()
        bi = b.astype(np.int64)
        if kind == "intF":
            return np.asfortranarray(bi)
        if kind == "intview":
            if bi.ndim == 1:
                w = np.full(len(bi) * 2 + 1, -77, dtype=np.int64)
                w[1::2] = bi
                return w[1::2]
            w = np.full((bi.shape[0], bi.shape[1] * 2 + 1), -77, dtype=np.int64)      # columns of a wider table
            w[:, 1::2] = bi
            return w[:, 1::2]
        return bi
    return _variant(a, kind)


def _has_int_form(args):
    return any(isinstance(a, np.ndarray) and a.dtype.kind == "f" and a.size and bool(np.all(a == np.floor(a))) for a in args)


def _scale_same(a, b, tol, ab):
    """result equality at scale: index-valued parts exact, reals within rel `tol` (+ `tol` times the largest magnitude of the
    array they belong to and the recipe's absolute noise scale `ab`)"""
    if isinstance(a, dict) or isinstance(b, dict):
        return isinstance(a, dict) and isinstance(b, dict) and a.keys() == b.keys() and all(_scale_same(a[k], b[k], tol, ab) for k in a)
    if a is None or b is None or isinstance(a, (str, bool)) or isinstance(b, (str, bool)):
        return type(a) is type(b) and a == b
    if isinstance(a, (list, tuple)) and isinstance(b, (list, tuple)):
        if len(a) != len(b):
            return False
        if any(isinstance(v, (list, tuple, np.ndarray, dict)) or v is None for v in list(a) + list(b)):
            return all(_scale_same(x, y, tol, ab) for x, y in zip(a, b))
        # a tuple of scalars (coefficients, (index, r2, slope)): every entry on its own
        return all(_scale_same(np.asarray(x), np.asarray(y), tol, ab) for x, y in zip(a, b))
    try:
        A, B = np.asarray(a), np.asarray(b)
    except Exception:
        return False
    if A.shape != B.shape or A.dtype.kind in "OUS" or B.dtype.kind in "OUS":
        return A.shape == B.shape and bool(np.all(A == B))
    if A.dtype.kind in "iub" and B.dtype.kind in "iub":
        return bool(np.array_equal(A, B))
    A = A.astype(np.float64)
    B = B.astype(np.float64)
    na, nb = np.isnan(A), np.isnan(B)
    if not np.array_equal(na, nb):
        return False
    fa, fb = np.isinf(A), np.isinf(B)
    if not (np.array_equal(fa, fb) and np.array_equal(A[fa], B[fb])):
        return False
    ok = ~(na | fa)
    if not ok.any():
        return True
    A, B = A[ok], B[ok]
    big = float(np.max(np.abs(A))) if A.size > 1 else 0.0
    return bool(np.all(np.abs(A - B) <= tol * np.maximum(np.abs(A), np.abs(B)) + tol * (big + ab) + 1e-300))


_WORLDS = {}


def _scale_world(n, shape, wseed):
    k = (n, shape, wseed)
    if k not in _WORLDS:
        if len(_WORLDS) > 3:
            _WORLDS.clear()
        _WORLDS[k] = _ScaleWorld(n, shape, wseed)
    return _WORLDS[k]


def _shown(val):
    try:
        if isinstance(val, np.ndarray) and val.size > 12:
            return "ndarray%s %s ... %s" % (val.shape, val.ravel()[:5].tolist(), val.ravel()[-3:].tolist())
        return json.dumps(_norm(val))[:160]
    except Exception:
        return str(val)[:160]


def _scale_history(item):
    """one scale recipe on one long world in every representation; returns the case for Purity.tla"""
    _, name, n, shape, wseed, lite = item
    fn, mk, maxn, abf, need, heavy = _scale_recipes()[name]
    W = _scale_world(n, shape, wseed)
    cid = "scale:%s@%s/%d/%d" % (name, shape, n, wseed)
    base = {"id": cid, "fn": name, "n": n, "shape": shape, "wseed": wseed, "lite": lite, "events": [], "reuse": None, "skipped": None}
    base["dropped_clusters"] = W.dropped_clusters
    if need and not getattr(W, need):
        return dict(base, skipped="a decision of this call sits within rounding noise of a tie on this world (%s)" % need)
    args0 = mk(W)
    tol = _scale_tol(n)
    ab = float(abf(W)) if abf else 0.0
    budget = monitor.quad(n, 8)
    wall = 120 + n // 500
    kinds = [k for k in (SCALE_LITE if lite >= 2 else SCALE_VARIANTS) if not k.startswith("int") or _has_int_form(args0)]
    results = []
    base_objs = None
    for kind in kinds:
        if kind == "again":
            args = base_objs
        else:
            args = [_scale_variant(a, kind) for a in args0]
        if kind == "C":
            base_objs = args
        before = [_digest(a) for a in args]
        _churn(len(results))
        out, val, _ = monitor.call(fn, tuple(args), {}, budget=budget, wall=wall)
        after = [_digest(a) for a in args]
        mutated = ["arg%d" % k for k in range(len(args)) if before[k] != after[k]]
        cls = None
        for j, (o, v) in enumerate(results):
            if o == out and (out != "returned" or _scale_same(v, val, tol, ab)):
                cls = j
                break
        if cls is None:
            cls = len(results)
        results.append((out, val))
        base["events"].append({"variant": kind, "world": "scale", "mutated": mutated, "resclass": "scale-%d" % cls, "outcome": out,
                               "shown": _shown(val) if out == "returned" else str(val)[:200]})
    # in-place update of the caller's arrays (another world of the same size; a LOCAL change in the middle of the curve, which a
    # fingerprint that samples a long array can miss): the answer must be the one for the new contents
    try:
        updates = []
        if lite == 0:
            updates.append(("another world", mk(_scale_world(n, shape, wseed + 1))))
        a3 = []
        lo, hi = n // 2 - max(2, n // 64), n // 2 + max(2, n // 64)
        for a in args0:
            if isinstance(a, np.ndarray) and a.dtype.kind == "f" and a.ndim in (1, 2) and a.shape[0] == n and a is not W.x:
                b = a.copy()
                col = b[:, 1] if b.ndim == 2 else b
                col[lo:hi] += (np.arange(hi - lo) % 7 + 1.0) * (1.0 if float(np.max(np.abs(col))) > 64.0 else 2.0 ** -10)
                a3.append(b)
            else:
                a3.append(a)
        if lite <= 1 and any(b is not a for a, b in zip(args0, a3)):
            updates.append(("local change in the middle of the curve", a3))
        for what, a_new in updates:
            objs = [_variant(a, "C") for a in args0]
            same_shape = all((not isinstance(o, np.ndarray)) or (isinstance(b, np.ndarray) and o.shape == b.shape and o.dtype == b.dtype)
                             for o, b in zip(objs, a_new))
            if not (same_shape and any(isinstance(o, np.ndarray) for o in objs)):
                continue
            monitor.call(fn, tuple(objs), {}, budget=budget, wall=wall)
            for o, b in zip(objs, a_new):
                if isinstance(o, np.ndarray):
                    o[...] = b
            args_reuse = [o if isinstance(o, np.ndarray) else b for o, b in zip(objs, a_new)]
            o1, v1, _ = monitor.call(fn, tuple(args_reuse), {}, budget=budget, wall=wall)
            o2, v2, _ = monitor.call(fn, tuple(_variant(a, "C") for a in a_new), {}, budget=budget, wall=wall)
            if o1 != o2 or (o1 == "returned" and not _scale_same(v1, v2, tol, ab)):
                base["reuse"] = {"reused_objects": _shown(v1) if o1 == "returned" else o1, "fresh_objects": _shown(v2) if o2 == "returned" else o2,
                                 "update": what}
                break
    except Exception:
        base["reuse"] = None
    return base


def _dyn_item(item):
    if item[0] == "twinref":
        return _twin_ref_task(item[1:])
    return _scale_history(item) if item[0] == "scale" else _twin_history(item) if item[0] == "twin" else _history(item)


def _scale_items(ctx):
    """(size, shape) worlds of this run and the recipes replayed on each.  The largest size always carries the miss-count
    shape (x up to 4*10^5, y up to 10^7: where products of sums leave the int64 / float53 range first)."""
    from harness import scale as sc
    R = _scale_recipes()
    sizes = sc.sizes(ctx)
    others = [s for s in SCALE_SHAPES if s != "misscount"]
    ctx.rng.shuffle(others)
    worlds = []
    if ctx.quick:
        worlds.append((sizes[-1], "misscount"))
        for k, n in enumerate(sizes[:-1]):
            worlds.append((n, others[k % len(others)]))
        worlds.append((sizes[-1], others[len(sizes) - 1]))
        worlds.append((sc.THRESHOLDS[ctx.rng.randrange(0, 2)] + ctx.rng.randrange(1, 200), others[len(sizes) % len(others)]))
    else:
        for k, n in enumerate(sizes):
            shapes = ["misscount"] + [others[(2 * k + j) % len(others)] for j in range(2)] if (k % 2 == 1 or n == sizes[-1]) else \
                [others[(2 * k + j) % len(others)] for j in range(3)]
            worlds += [(n, sh) for sh in shapes]
        worlds += [(sc.THRESHOLDS[j] + ctx.rng.randrange(1, 200), others[j]) for j in range(2)]
    items = []
    for n, shape in worlds:
        for name in sorted(R):
            maxn, heavy = R[name][2], R[name][5]
            if n > maxn:
                continue
            # effort level: 0 = every representation and both in-place updates, 1 = without the other-world update,
            # 2 = four representations only (the per-sample python loops at the largest sizes of the quick tier)
            lite = 0 if (not ctx.quick or n <= 20000) else (2 if heavy else 1)
            if lite == 2 and shape != "misscount":
                continue
            items.append(("scale", name, n, shape, ctx.seed, lite))
    # long calls first (the pool hands the items out one by one)
    items.sort(key=lambda it: -(it[2] * (40 if R[it[1]][5] else 1) * (0.3 if it[5] == 2 else 1.0)))
    ctx.extra["scale_worlds"] = ["%s/%d" % (sh, n) for n, sh in worlds]
    return items


def _scale_judge(ctx, shist, rej, quiet=False):
    calls = 0
    skipped = {}
    for h in shist:
        case = {"kind": "scale", "fn": h["fn"], "n": h["n"], "shape": h["shape"], "wseed": h["wseed"], "lite": h["lite"]}
        if h.get("twin"):
            case["twin"] = h["twin"]
        short = h["fn"].split("[")[0]
        if h["skipped"]:
            skipped[h["id"]] = h["skipped"]
            continue
        calls += len(h["events"])
        if not quiet:
            ctx.count(("scale", h["id"]), any(ch.isdigit() for e in h["events"] for ch in str(e["shown"])) and h.get("twin_changed", True))
        e0 = h["events"][0]
        if e0["outcome"] != "returned":
            if _is_link_error(e0["outcome"], e0["shown"]):
                ctx.violation("unlinked-at-runtime", case, {"outcome": e0["outcome"], "error": e0["shown"]}, match="unlinked-at-runtime:%s" % short)
            elif e0["outcome"] in ("budget", "watchdog"):
                ctx.violation("no-result-at-scale(%s)" % short, case, {"outcome": e0["outcome"], "n": h["n"], "shape": h["shape"]},
                              match="no-result-at-scale:%s" % short)
            elif not quiet:
                ctx.note("scale recipe %s does not run on %s/%d: %s %s" % (h["fn"], h["shape"], h["n"], e0["outcome"], e0["shown"]))
        if h.get("reuse"):
            ctx.violation("stale-after-in-place-update(%s)" % short, case, dict(h["reuse"], n=h["n"], shape=h["shape"]),
                          match="stale-after-in-place-update:%s" % short)
        if h.get("history"):
            ctx.violation("history-dependent(%s)" % short, case, dict(h["history"], n=h["n"], shape=h["shape"]), match="history-dependent:%s" % short)
        vs = rej.get(h["id"] + "@scale")
        if vs:
            clause = vs[0][0]
            ctx.violation("%s(%s)" % (clause, short), case,
                          {"verdict": vs[0], "n": h["n"], "shape": h["shape"],
                           "events": [{k: e[k] for k in ("variant", "mutated", "resclass", "outcome", "shown")} for e in h["events"]]},
                          match="%s:%s" % (clause, short))
    if not quiet:
        ctx.extra["scale"] = {"histories": len(shist) - len(skipped), "calls": calls, "recipes": len(set(h["fn"] for h in shist)),
                              "sizes": sorted(set(h["n"] for h in shist)), "skipped_as_near_ties": skipped,
                              "knee_clusters_removed_as_near_ties": {"%s/%d" % (h["shape"], h["n"]): h.get("dropped_clusters", 0) for h in shist
                                                                     if h.get("dropped_clusters")},
                              "tolerance": "rel 1e-12 + 4 n eps"}
        tw = [h for h in shist if h.get("twin") and not h["skipped"]]
        ctx.extra["scale_neighbour"] = {"histories": len(tw), "recipes": len(set(h["fn"] for h in tw)), "sizes": sorted(set(h["n"] for h in tw)),
                                        "with_fresh_process_reference": sum(1 for h in tw if h.get("twin_ref")),
                                        "result_differs_from_the_first_curve": sum(1 for h in tw if h["twin_changed"]),
                                        "hull_recipe_histories": sum(1 for h in tw if h["fn"].startswith(TWIN_ALWAYS)),
                                        "changed_indexes": sorted(set(h["twin_spec"]["index"] for h in tw))}
        hb = [h for h in tw if h["fn"].startswith(TWIN_ALWAYS)]
        if hb:
            ctx.sample({"binding": "T", "scale_neighbour_history": max(hb, key=lambda h: h["n"])})
        big = [h for h in shist if not h["skipped"] and h["events"]]
        if big:
            ctx.sample({"binding": "T", "scale_history": max(big, key=lambda h: (h["n"], h["fn"].startswith("postprocessing.filter_clusters")))})


# =====================================================================================================================
# ---- scale family, second part: NEIGHBOUR curves.  A long curve A is processed, then a curve A' of the same length and
# dtype that differs from A in ONE sample (a dip below / a spike above every other ordinate, at a PRIME index near the middle
# of the curve: not a multiple of any stride a sampled fingerprint could use, outside every knee cluster so that no ranking
# decision moves towards a tie) - as a fresh object in every representation AND as an in-place update of the objects the
# first call saw.  References: the first call of the history (Purity.tla: again -> nondeterministic, other layouts / int64 ->
# layout-dependent) and the result a FRESH process (forked from the parent, one per world, which never saw A) obtained for
# A': a fresh-object call that differs from it is history-dependent, an in-place update that differs from it (or from the
# fresh-object call) is stale-after-in-place-update.  The per-sample python loops of the hull recipes are replayed at every
# size here (they cost well under a second per call); the other python-loop recipes (kneedle, menger, slope_ranking, mip,
# lmethod) and the recipe whose vote must be pinned (kneedle.knee) are left out.
TWIN_ALWAYS = ("convex_hull.graham_scan_lower", "convex_hull.graham_scan_upper", "postprocessing.filter_clusters[hull")
TWIN_KINDS = {1: "dip", 2: "spike"}


def _is_prime(q):
    if q < 2 or q % 2 == 0:
        return q == 2
    d = 3
    while d * d <= q:
        if q % d == 0:
            return False
        d += 2
    return True


def _twin_spec(W, k):
    """(index, 'dip' | 'spike', depth level) of the one changed sample: a deterministic function of the world and k"""
    import zlib
    rng = random.Random(zlib.crc32(("twin/%d/%s/%d/%d" % (W.n, W.shape, W.wseed, k)).encode()))
    n = W.n
    spans = [(g[0] - 3, g[-1] + 3) for g in list(W.groups_wide) + list(W.groups_many)]
    q = (n // 2 + rng.randrange(-(n // 8), n // 8 + 1)) | 1
    lvl = rng.randrange(0, 3)
    p = None
    while q < n - 8:
        if _is_prime(q) and not any(a <= q <= b for a, b in spans):
            p = q
            break
        q += 2
    if p is None:
        p = next(q for q in range(n // 2 | 1, n, 2) if _is_prime(q))
    return p, TWIN_KINDS[k], lvl


def _twin_args(args0, W, spec):
    """the arguments of the recipe with ONE ordinate changed (x stays strictly increasing; integral columns stay integral)"""
    p, kind, lvl = spec
    out = []
    for a in args0:
        if isinstance(a, np.ndarray) and a.dtype.kind == "f" and a.shape[0] == W.n and a is not W.x and \
                (a.ndim == 1 or (a.ndim == 2 and a.shape[1] == 2)):
            b = a.copy()
            col = b[:, 1] if b.ndim == 2 else b
            lo, hi = float(col.min()), float(col.max())
            span = hi - lo
            if bool(np.all(col == np.floor(col))):
                d = (1.0, max(2.0, float(np.rint(span / 128.0))), float(np.rint(span)) + 1.0)[lvl]
            else:
                d = max(span, 2.0 ** -20) * (2.0 ** -7, 0.25, 1.0)[lvl]
            col[p] = lo - d if kind == "dip" else hi + d
            out.append(b)
        else:
            out.append(a)
    return out


_TWIN_NAMES = []


def _twin_names():
    """the recipes of the neighbour family: the hull recipes and every vectorised recipe that takes an ordinate array of the
    length of the curve"""
    if not _TWIN_NAMES:
        R = _scale_recipes()
        W = _ScaleWorld(1031, "convex", 0)
        spec = _twin_spec(W, 1)
        for name in sorted(R):
            fn, mk, maxn, abf, need, heavy = R[name]
            if need or (heavy and not name.startswith(TWIN_ALWAYS)):
                continue
            a0 = mk(W)
            if any(b is not a for a, b in zip(a0, _twin_args(a0, W, spec))):
                _TWIN_NAMES.append(name)
    return list(_TWIN_NAMES)


def _twin_budget(n):
    return monitor.quad(n, 8), 120 + n // 500


def _twin_ref_task(task):
    """runs as the FIRST work of a process forked from the parent (the pool hands the items out in order, one by one, and
    these tasks head the list; a replay forks a process for it): the library has never seen the first curve here"""
    import pickle
    n, shape, wseed, k, names, path = task
    R = _scale_recipes()
    W = _scale_world(n, shape, wseed)
    spec = _twin_spec(W, k)
    budget, wall = _twin_budget(n)
    out = {}
    for name in names:
        fn, mk = R[name][0], R[name][1]
        args1 = _twin_args(mk(W), W, spec)
        o, v, _ = monitor.call(fn, tuple(_variant(a, "C") for a in args1), {}, budget=budget, wall=wall)
        out[name] = (o, v if o == "returned" else str(v)[:200])
    with open(path + ".tmp", "wb") as f:
        pickle.dump(out, f, protocol=4)
    os.rename(path + ".tmp", path)
    return None


def _twin_refs(tasks):
    import multiprocessing as mp
    if not tasks:
        return
    with mp.get_context("fork").Pool(min(len(tasks), 12), maxtasksperchild=1) as pool:
        pool.map(_twin_ref_task, tasks, chunksize=1)


_TWIN_REF = {}


def _twin_ref_load(path, wait=600.0):
    import pickle
    import time
    if path not in _TWIN_REF:
        _TWIN_REF.clear()
        t0 = time.time()
        while not os.path.exists(path) and time.time() - t0 < wait:      # its task started before this one (it is earlier in the list)
            time.sleep(0.05)
        try:
            with open(path, "rb") as f:
                _TWIN_REF[path] = pickle.load(f)
        except Exception:
            _TWIN_REF[path] = {}
    return _TWIN_REF[path]


def _twin_history(item):
    """one recipe on a long curve A and then on its one-sample neighbour A' in every representation and in place"""
    _, name, n, shape, wseed, k, refpath, lite = item
    fn, mk, maxn, abf, need, heavy = _scale_recipes()[name]
    W = _scale_world(n, shape, wseed)
    spec = _twin_spec(W, k)
    cid = "scale:twin%d:%s@%s/%d/%d" % (k, name, shape, n, wseed)
    base = {"id": cid, "fn": name, "n": n, "shape": shape, "wseed": wseed, "lite": lite, "twin": k, "events": [], "reuse": None,
            "history": None, "skipped": None, "dropped_clusters": 0, "twin_changed": False,
            "twin_spec": {"index": spec[0], "change": spec[1], "depth_level": spec[2]}}
    args0 = mk(W)
    args1 = _twin_args(args0, W, spec)
    tol = _scale_tol(n)
    ab = 3.0 * float(abf(W)) if abf else 0.0
    budget, wall = _twin_budget(n)
    what = "one sample (index %d, %s) of the curve the previous call saw" % (spec[0], spec[1])

    def same(r1, r2):
        return r1[0] == r2[0] and (r1[0] != "returned" or _scale_same(r1[1], r2[1], tol, ab))

    def show(r):
        return _shown(r[1]) if r[0] == "returned" else "%s %s" % (r[0], str(r[1])[:120])

    objs_a = [_variant(a, "C") for a in args0]
    res_a = monitor.call(fn, tuple(objs_a), {}, budget=budget, wall=wall)[:2]
    kinds = [kd for kd in (SCALE_LITE if lite >= 2 else SCALE_VARIANTS) if not kd.startswith("int") or _has_int_form(args1)]
    results = []
    base_objs = None
    for kind in kinds:
        args = base_objs if kind == "again" else [_scale_variant(a, kind) for a in args1]
        if kind == "C":
            base_objs = args
        before = [_digest(a) for a in args]
        _churn(len(results))
        out, val, _ = monitor.call(fn, tuple(args), {}, budget=budget, wall=wall)
        after = [_digest(a) for a in args]
        mutated = ["arg%d" % j for j in range(len(args)) if before[j] != after[j]]
        cls = None
        for j, r in enumerate(results):
            if same(r, (out, val)):
                cls = j
                break
        if cls is None:
            cls = len(results)
        results.append((out, val))
        base["events"].append({"variant": kind, "world": "scale", "mutated": mutated, "resclass": "scale-%d" % cls, "outcome": out,
                               "shown": _shown(val) if out == "returned" else str(val)[:200]})
    res_c = results[0]
    ref = _twin_ref_load(refpath).get(name) if refpath else None
    base["twin_ref"] = ref is not None
    base["twin_changed"] = not same(res_a, ref if ref is not None else res_c)
    if ref is not None and not same(ref, res_c):
        base["history"] = {"after_the_neighbour_curve": show(res_c), "fresh_process": show(ref), "neighbour": what}
    # in-place update of the objects the first call saw
    try:
        for o, b in zip(objs_a, args1):
            if isinstance(o, np.ndarray) and isinstance(b, np.ndarray) and o.shape == b.shape:
                o[...] = b
        res_i = monitor.call(fn, tuple(objs_a), {}, budget=budget, wall=wall)[:2]
        if not same(res_i, res_c):
            base["reuse"] = {"reused_objects": show(res_i), "fresh_objects": show(res_c), "update": what}
        elif ref is not None and not same(res_i, ref):
            base["reuse"] = {"reused_objects": show(res_i), "fresh_process": show(ref), "update": what}
    except Exception:
        pass
    return base


def _twin_items(ctx):
    """(size, shape, changed sample) worlds of the neighbour family and the items replayed on each; the references of every
    world are computed first, each world in a process of its own"""
    import zlib
    rng = random.Random(zlib.crc32(("twin-sizes/%d" % ctx.seed).encode()))
    names = _twin_names()
    hulls = [nm for nm in names if nm.startswith(TWIN_ALWAYS)]
    shapes = list(SCALE_SHAPES)
    rng.shuffle(shapes)
    worlds = []          # (n, shape, k, every recipe?)
    if ctx.quick:
        sizes = [8192 + rng.randrange(1, 4000), rng.choice((16384, 32768)) + rng.randrange(1, 3000), rng.choice((65536, 100000)) + rng.randrange(1, 2000)]
        worlds = [(sizes[0], shapes[0], 1, True), (sizes[0], shapes[1], 2, False), (sizes[1], shapes[2], 1, False), (sizes[1], shapes[3], 2, False),
                  (sizes[2], "misscount", 1, False)]
    else:
        sizes = [8192 + rng.randrange(1, 4000), 10000 + rng.randrange(2300, 6000), 16384 + rng.randrange(1, 3000), 32768 + rng.randrange(1, 3000),
                 65536 + rng.randrange(1, 3000), 100000 + rng.randrange(1, 2000)]
        for j, n in enumerate(sizes):
            for i in range(3):
                worlds.append((n, shapes[(3 * j + i) % len(shapes)], 1 + (i + j) % 2, i == 0))
            if "misscount" not in [w[1] for w in worlds[-3:]]:
                worlds.append((n, "misscount", 1 + j % 2, False))
    items, tasks = [], []
    for n, shape, k, full in worlds:
        # the upper hull does not move for a dip, the lower hull does not move for a spike: both changes for the hull recipes
        for kk in (1, 2):
            use = [nm for nm in (names if (full and kk == k) else hulls)
                   if n <= _scale_recipes()[nm][2] and (kk == k or ("upper" in nm) == (kk == 2))]
            if not use:
                continue
            path = os.path.join(ctx.scratch, "twinref_%d_%s_%d_%d.pkl" % (n, shape, ctx.seed, kk))
            if os.path.exists(path):
                os.remove(path)
            tasks.append(("twinref", n, shape, ctx.seed, kk, use, path))
            items += [("twin", nm, n, shape, ctx.seed, kk, path, 2 if (ctx.quick and n > 20000) else 0) for nm in use]
    ctx.extra["scale_neighbour_worlds"] = ["%s/%d/%s%s" % (sh, n, TWIN_KINDS[k], "/every recipe" if full else "/hull recipes") for n, sh, k, full in worlds]
    return items, tasks
