"""C20 - public functions are pure, deterministic, layout-independent and fully linked.
Dynamic half (Purity.tla, binding T): every public function is called on the same values as C-ordered float64, the same
objects again, Fortran-ordered, strided views and int64; argument digests before/after and result classes form a call
history that TLC judges.  Static half (Linkage.tla): name / attribute / call-signature resolution rules evaluated by TLC
over AST facts of every module and dir()/signature tables of the imported objects."""
import hashlib
import inspect
import json
import math
import os
import random
import types

import numpy as np

from harness import astfacts, monitor, numeric, par, recipes

VARIANTS = ["C", "again", "F", "view", "int"]


def _digest(a):
    if isinstance(a, np.ndarray):
        return "nd:%s:%s:%s" % (a.dtype, a.shape, hashlib.sha256(np.ascontiguousarray(a).tobytes()).hexdigest()[:16])
    if isinstance(a, (list, tuple)):
        return "seq:%s:[%s]" % (type(a).__name__, ",".join(_digest(v) for v in a))
    if isinstance(a, dict):
        return "dict"      # a cache argument may legitimately be filled
    if isinstance(a, (int, float, str, bool, type(None))):
        return repr(a)
    return "obj:%s" % getattr(a, "__name__", type(a).__name__)


def _variant(a, kind):
    """the same VALUES in another representation"""
    if not isinstance(a, np.ndarray):
        return a
    if a.dtype.kind in "iu":        # index arrays: only the memory layout changes
        if kind == "view" and a.ndim == 1:
            w = np.zeros(len(a) * 3, dtype=a.dtype)
            w[::3] = a
            return w[::3]
        if kind == "view" and a.ndim == 2:
            w = np.zeros((a.shape[0] * 2, a.shape[1] * 2), dtype=a.dtype)
            w[::2, ::2] = a
            return w[::2, ::2]
        return a.copy()
    b = np.ascontiguousarray(a, dtype=np.float64)
    if kind == "F":
        return np.asfortranarray(b)
    if kind == "view":
        if b.ndim == 1:
            w = np.full(len(b) * 2 + 1, -77.0)
            w[1::2] = b
            return w[1::2]
        w = np.full((b.shape[0] * 2, b.shape[1] * 2 + 1), -77.0)
        w[::2, 1::2] = b
        return w[::2, 1::2]
    if kind == "int":
        # only a representation change: arrays with non-integral values stay float64
        return b.astype(np.int64) if np.all(b == np.floor(b)) and np.all(np.abs(b) < 2 ** 52) else b.copy()
    return b.copy()


def _norm(v):
    """result -> JSON-able canonical form: ints exact, floats as floats, containers recursively"""
    if isinstance(v, np.ndarray):
        if v.dtype.kind in "iub":
            return ["i"] + [int(x) for x in v.ravel().tolist()] + ["shape", list(v.shape)]
        return ["f"] + [float(x) for x in v.ravel().tolist()] + ["shape", list(v.shape)]
    if isinstance(v, (np.integer, int)) and not isinstance(v, bool):
        return int(v)
    if isinstance(v, (np.floating, float)):
        return float(v)
    if isinstance(v, (list, tuple)):
        return [_norm(x) for x in v]
    if isinstance(v, dict):
        return {str(k): _norm(x) for k, x in sorted(v.items(), key=lambda kv: str(kv[0]))}
    if v is None or isinstance(v, (bool, str)):
        return v
    return str(v)


def _same(a, b, exact_only=False):
    if isinstance(a, float) or isinstance(b, float):
        if isinstance(a, (int, float)) and isinstance(b, (int, float)) and not isinstance(a, bool) and not isinstance(b, bool):
            if math.isnan(a) and math.isnan(b):
                return True
            return a == b or (not exact_only and numeric.close(a, b, rel=1e-12, ab=1e-300))
        return False
    if isinstance(a, list) and isinstance(b, list):
        # an int-typed and a float-typed array with the same values are the same result
        if a and b and a[0] in ("i", "f") and b[0] in ("i", "f"):
            return len(a) == len(b) and all(_same(float(x) if isinstance(x, (int, float)) and not isinstance(x, bool) else x,
                                                  float(y) if isinstance(y, (int, float)) and not isinstance(y, bool) else y)
                                            for x, y in zip(a[1:], b[1:]))
        return len(a) == len(b) and all(_same(x, y) for x, y in zip(a, b))
    if isinstance(a, dict) and isinstance(b, dict):
        return a.keys() == b.keys() and all(_same(a[k], b[k]) for k in a)
    if isinstance(a, (int,)) and isinstance(b, (int,)) and not isinstance(a, bool) and not isinstance(b, bool):
        return a == b
    return a == b


def _churn(k):
    """recycle small heap blocks with non-zero contents, so that a result that depends on uninitialised memory
    (np.empty) does not happen to see zeros on every call"""
    value = [0.0, 99.0, -3.0, 7.5, 1e6, float("nan")][k % 6]
    for m in range(1, 12):
        junk = [np.full(m, value, dtype=float) for _ in range(16)]
        del junk


def _history(item):
    """call one recipe in every variant; returns the case for Purity.tla"""
    name, seed, wk = item
    R = recipes.recipes()
    fn, mk = R[name]
    events = []
    results = []
    base_objs = None
    for integral in (False, True):
        W = recipes.World(random.Random(seed), integral)
        args0, kw0 = mk(W)
        kinds = ["C", "again", "F", "view"] if not integral else ["C", "again", "int"]
        for kind in kinds:
            if kind == "again" and base_objs is not None:
                args = base_objs
            else:
                args = [_variant(a, "C" if kind == "again" else kind) for a in args0]
                args = [list(a) if isinstance(a, list) else a for a in args]
            if kind == "C":
                base_objs = args
            before = [_digest(a) for a in args]
            _churn(len(events))
            out, val, _ = monitor.call(fn, tuple(args), dict(kw0), budget=400000, wall=40)
            after = [_digest(a) for a in args]
            mutated = ["arg%d" % k for k in range(len(args)) if before[k] != after[k]]
            res = {"outcome": out, "value": _norm(val) if out == "returned" else str(val)[:200]}
            # result class: index of the first earlier result (same world) it equals
            world_results = [r for r in results if r[0] == integral]
            cls = None
            for j, (_, r) in enumerate(world_results):
                if r["outcome"] == res["outcome"] and (res["outcome"] != "returned" or _same(r["value"], res["value"])):
                    cls = j
                    break
            if cls is None:
                cls = len(world_results)
            results.append((integral, res))
            events.append({"variant": kind, "world": "int" if integral else "float", "mutated": mutated,
                           "resclass": "%s-%d" % ("int" if integral else "float", cls),
                           "outcome": out, "shown": json.dumps(res["value"])[:160] if out == "returned" else res["value"]})
    # the caller updates its arrays IN PLACE and calls again: the result must be the one for the new contents (a cache keyed by
    # the identity of an argument, `is` / id(), would answer for the old ones)
    reuse = None
    try:
        W1 = recipes.World(random.Random(seed), False)
        W2 = recipes.World(random.Random(seed + 1), False)
        a1, kw1 = mk(W1)
        a2, kw2 = mk(W2)

        def mirrored(a):      # the same curve mirrored vertically (a convex decay becomes concave: other hull, other knees)
            if isinstance(a, np.ndarray) and a.ndim == 2 and a.shape[1] == 2 and a.dtype.kind == "f":
                b = a.copy()
                b[:, 1] = a[:, 1].max() - a[:, 1] + a[:, 1].min()
                return b
            return a
        for a_new, kw_new in ((a2, kw2), ([mirrored(a) for a in a1], kw1)):
            objs = [_variant(a, "C") for a in a1]
            monitor.call(fn, tuple(objs), dict(kw1), budget=400000, wall=40)
            same_shape = all((not isinstance(o, np.ndarray)) or (isinstance(b, np.ndarray) and o.shape == b.shape and o.dtype == b.dtype)
                             for o, b in zip(objs, a_new))
            if not (same_shape and any(isinstance(o, np.ndarray) for o in objs)):
                continue
            for o, b in zip(objs, a_new):
                if isinstance(o, np.ndarray):
                    o[...] = b
            args_reuse = [o if isinstance(o, np.ndarray) else b for o, b in zip(objs, a_new)]
            o1, v1, _ = monitor.call(fn, tuple(args_reuse), dict(kw_new), budget=400000, wall=40)
            o2, v2, _ = monitor.call(fn, tuple(_variant(a, "C") for a in a_new), dict(kw_new), budget=400000, wall=40)
            if o1 != o2 or (o1 == "returned" and not _same(_norm(v1), _norm(v2))):
                reuse = {"reused_objects": json.dumps(_norm(v1))[:160] if o1 == "returned" else o1,
                         "fresh_objects": json.dumps(_norm(v2))[:160] if o2 == "returned" else o2}
                break
    except Exception:
        reuse = None
    return {"id": "%s#%d" % (name, wk), "fn": name, "events": events, "seed": seed, "wk": wk, "reuse": reuse}


def _public_inventory():
    import importlib
    import pkgutil
    import kneeliverse
    inv = []
    for m in pkgutil.iter_modules(kneeliverse.__path__):
        mod = importlib.import_module("kneeliverse." + m.name)
        for k, v in vars(mod).items():
            f = getattr(v, "py_func", v)
            if isinstance(f, types.FunctionType) and f.__module__ == mod.__name__ and not k.startswith("_"):
                inv.append("%s.%s" % (m.name, k))
    return sorted(inv)


def _split_cases(case):
    """Purity.tla compares every event of a case with the FIRST one: one case per world."""
    out = []
    for w in ("float", "int"):
        evs = [e for e in case["events"] if e["world"] == w]
        if evs:
            out.append({"id": "%s@%s" % (case["id"], w), "fn": case["fn"],
                        "events": [{k: e[k] for k in ("variant", "mutated", "resclass")} for e in evs]})
    return out


STATIC = {"id": "static", "fn": "demo.f", "events": [
    {"variant": "C", "mutated": [], "resclass": "float-0"}, {"variant": "again", "mutated": [], "resclass": "float-0"},
    {"variant": "F", "mutated": [], "resclass": "float-0"}, {"variant": "view", "mutated": [], "resclass": "float-0"}]}


def _selftests():
    import copy
    out = [(STATIC, "ok")]
    c = copy.deepcopy(STATIC); c["events"][1]["resclass"] = "float-1"; out.append((c, "nondeterministic"))
    c = copy.deepcopy(STATIC); c["events"][3]["resclass"] = "float-1"; out.append((c, "layout-dependent"))
    c = copy.deepcopy(STATIC); c["events"][0]["mutated"] = ["arg1"]; out.append((c, "argument-mutated"))
    return out


def _static(ctx):
    src = os.path.join(os.environ.get("KNEE_REPO", "/repo"), "src")
    facts, scopes, defs, aliases = astfacts.extract(src)
    attrs, sigs = astfacts.resolve_tables(facts, scopes, defs, aliases)
    for k, x in enumerate(facts):
        x["id"] = "f%d" % k
        x.setdefault("rooted", False)
        x.setdefault("static_depth", 1)
    tp = os.path.join(ctx.scratch, "tables.json")
    with open(tp, "w") as f:
        json.dump({"scopes": scopes, "defs": defs, "builtins": astfacts.BUILTINS, "attrs": attrs, "sigs": sigs}, f)
    st_ok = {"id": "s", "kind": "name", "module": "kneeliverse.rdp", "function": "rdp", "line": 1, "name": "np", "scope": "kneeliverse.rdp:<module>",
             "rooted": False, "static_depth": 1}
    st_bad = dict(st_ok, name="definitely_not_defined")
    st_attr = {"id": "s", "kind": "attr", "module": "kneeliverse.rdp", "function": "rdp", "line": 1, "chain": ["lf", "no_such_function"],
               "scope": "kneeliverse.rdp:<module>", "rooted": True, "static_depth": 2}
    st_call = {"id": "s", "kind": "call", "module": "kneeliverse.rdp", "function": "rdp", "line": 1, "chain": ["compute_cost_coef"],
               "scope": "kneeliverse.rdp:<module>", "rooted": True, "static_depth": 1, "npos": 1, "star": False, "kw": []}
    st_call_ok = dict(st_call, npos=2)
    rej = ctx.trace("Linkage", facts, env={"TABLES_FILE": tp}, chunk=1200,
                    selftest=[(st_ok, "ok"), (st_bad, "name-unresolved"), (st_attr, "attribute-unresolved"),
                              (st_call, "arity-mismatch"), (st_call_ok, "ok")])
    byid = {x["id"]: x for x in facts}
    ctx.extra["static_facts"] = {"names": sum(1 for x in facts if x["kind"] == "name"),
                                 "attribute_chains": sum(1 for x in facts if x["kind"] == "attr"),
                                 "calls": sum(1 for x in facts if x["kind"] == "call"),
                                 "calls_with_package_signature": sum(1 for x in facts if x["kind"] == "call" and x.get("rooted") and
                                                                     "%s|%s" % (x["module"], ".".join(x["chain"])) in sigs),
                                 "modules": len(defs)}
    for x in facts:
        ctx.count(("static", x["kind"], x["module"], x["function"], x.get("name") or ".".join(x.get("chain", []))),
                  x["kind"] != "name" or x["name"] not in astfacts.BUILTINS)
    seen = set()
    for fid, vs in sorted(rej.items()):
        x = byid[fid]
        what = x.get("name") or ".".join(x["chain"])
        match = "%s:%s:%s:%s" % (vs[0][0], x["module"], x["function"], what)
        if match in seen:
            continue
        seen.add(match)
        ctx.violation(vs[0][0], {"kind": "static", "module": x["module"], "function": x["function"], "line": x["line"], "what": what},
                      {"verdict": vs[0]}, match=match)


def run(ctx):
    ctx.rule = ("dynamic: every public function (inventory from the modules' defs) x one recipe per option value x "
                "{C float64, same objects again, Fortran order, strided view} on a real-valued world and {C float64, int64} on an "
                "integer-valued world; static: every Name load, every attribute chain rooted at a module-level binding, every "
                "call whose callee is a python function of the package.  non-trivial: a fact that is not a builtin name / a "
                "history whose result contains at least one number")
    ctx.assumptions += [
        "results: index-valued parts identical, real-valued parts equal within rel 1e-12; an int-typed and a float-typed array "
        "with equal values are the same result",
        "dict arguments (explicit caches) are exempt from the unmodified-argument clause",
        "static name resolution is flow-insensitive (a name assigned anywhere in a function is local); attribute chains are "
        "followed through modules and classes only (not instances); signatures are checked for python functions of the package",
        "the AST extractor (harness/astfacts.py) and dir()/inspect of the installed dependencies are trusted"]
    # ---- static half
    _static(ctx)
    # ---- dynamic half
    _tiny_sweep(ctx)
    _history_sweep(ctx)
    R = recipes.recipes()
    inv = _public_inventory()
    driven = set(k.split("[")[0] for k in R)
    gaps = [f for f in inv if f not in driven and f not in recipes.NOT_DRIVEN]
    ctx.extra["public_functions"] = len(inv)
    ctx.extra["public_functions_driven"] = len([f for f in inv if f in driven])
    ctx.extra["not_driven"] = dict(recipes.NOT_DRIVEN, **{g: "NO RECIPE (coverage gap)" for g in gaps})
    nworlds = 3 if ctx.quick else 12
    hist = par.pmap(_history, [(name, ctx.seed * 1000 + wk, wk) for name in sorted(R) for wk in range(nworlds)], chunksize=4)
    ctx.extra["worlds_per_recipe"] = nworlds
    cases = []
    for h in hist:
        cases += _split_cases(h)
    byname = {h["id"]: h for h in hist}
    rej = ctx.trace("Purity", cases, selftest=_selftests(), chunk=400)
    for h in hist:
        ctx.count(("dyn", h["id"]), any(ch.isdigit() for e in h["events"] for ch in str(e["shown"])))
        name = h["fn"]
        for e in h["events"]:
            if e["outcome"] != "returned" and e["variant"] == "C":
                # a recipe that cannot even run on the plain representation: linkage failures are violations, the rest a gap
                if any(t in e["outcome"] for t in ("NameError", "AttributeError", "UnboundLocalError")) or \
                        ("TypeError" in e["outcome"] and "argument" in str(e["shown"])):
                    ctx.violation("unlinked-at-runtime", {"kind": "dyn", "fn": name, "seed": h["seed"], "wk": h["wk"]},
                                  {"outcome": e["outcome"], "error": e["shown"]}, match="unlinked-at-runtime:%s" % name.split("[")[0])
                else:
                    if h["wk"] == 0:
                        ctx.note("recipe %s does not run on the %s world: %s %s" % (name, e["world"], e["outcome"], e["shown"]))
    for h in hist:
        if h.get("reuse"):
            ctx.violation("stale-after-in-place-update(%s)" % h["fn"].split("[")[0], {"kind": "dyn", "fn": h["fn"], "seed": h["seed"], "wk": h["wk"]},
                          h["reuse"], match="stale-after-in-place-update:%s" % h["fn"].split("[")[0])
    for cid, vs in rej.items():
        h = byname[cid.rsplit("@", 1)[0]]
        name = h["fn"]
        clause = vs[0][0]
        ctx.violation("%s(%s)" % (clause, name.split("[")[0]), {"kind": "dyn", "fn": name, "seed": h["seed"], "wk": h["wk"]},
                      {"verdict": vs[0], "events": [{k: e[k] for k in ("variant", "world", "mutated", "resclass", "outcome", "shown")} for e in h["events"]]},
                      match="%s:%s" % (clause, name.split("[")[0]))
    ctx.traces += 0
    ctx.sample({"binding": "T", "history": hist[len(hist) // 2]})


def replay(ctx, obj):
    c = obj["case"]
    if c["kind"] == "static":
        _static(ctx)
        return
    if c["kind"] == "hist":
        _history_sweep(ctx, only=c["fn"])
        return
    if c["kind"] == "tiny":
        fn, mk = _tiny_calls()[c["fn"]]
        out, val, _ = monitor.call(fn, mk(_tiny_world(c["n"], c["dtype"], c.get("shape", "decay"))), {}, budget=400000, wall=40)
        if out != "returned" and _is_link_error(out, val):
            ctx.violation("unlinked-at-runtime", c, {"outcome": out, "error": str(val)[:200]})
        return
    h = _history((c["fn"], c.get("seed", 0), c.get("wk", 0)))
    if h.get("reuse"):
        ctx.violation("stale-after-in-place-update(%s)" % c["fn"].split("[")[0], c, h["reuse"])
    rej = ctx.trace("Purity", _split_cases(h))
    for cid, vs in rej.items():
        ctx.violation("%s(%s)" % (vs[0][0], c["fn"].split("[")[0]), c, {"verdict": vs[0], "events": h["events"]})


# ---- the smallest inputs: only LINK failures are judged here (the static clause is about every code path, whatever the
# input; loops that do not execute at all are where a conditionally bound local or a rarely taken branch shows)
def _tiny_calls():
    import kneeliverse.convex_hull as ch
    import kneeliverse.curvature as cu
    import kneeliverse.dfdt as df
    import kneeliverse.kneedle as kn
    import kneeliverse.lmethod as lm
    import kneeliverse.menger as me
    import kneeliverse.rdp as rdp
    import kneeliverse.zmethod as zm
    import kneeliverse.postprocessing as pp
    import kneeliverse.clustering as cl
    P = lambda W: W["P"]
    xy = lambda W: (W["P"][:, 0], W["P"][:, 1])
    C = {"curvature.knee": (cu.knee, lambda W: (P(W),)), "curvature.multi_knee": (cu.multi_knee, lambda W: (P(W),)),
         "dfdt.knee": (df.knee, lambda W: (P(W),)), "dfdt.get_knee": (df.get_knee, xy), "dfdt.multi_knee": (df.multi_knee, lambda W: (P(W),)),
         "menger.knee": (me.knee, lambda W: (P(W),)), "menger.multi_knee": (me.multi_knee, lambda W: (P(W),)),
         "lmethod.knee": (lm.knee, lambda W: (P(W),)), "lmethod.get_knee": (lm.get_knee, xy),
         "lmethod.multi_knee": (lm.multi_knee, lambda W: (P(W),)), "lmethod.multi_knee[t2=3]": (lm.multi_knee, lambda W: (P(W), 0.01, 3)),
         "kneedle.knee": (kn.knee, lambda W: (P(W),)), "kneedle.multi_knee": (kn.multi_knee, lambda W: (P(W),)),
         "zmethod.knees": (zm.knees, lambda W: (W["Z"],)), "zmethod.getPoints": (zm.getPoints, lambda W: (W["Z"],)),
         "rdp.rdp": (rdp.rdp, lambda W: (P(W),)), "rdp.grdp": (rdp.grdp, lambda W: (P(W),)),
         "rdp.rdp_fixed": (rdp.rdp_fixed, lambda W: (P(W), 3)), "rdp.mp_grdp": (rdp.mp_grdp, lambda W: (P(W),)),
         "rdp.min_point_rdp": (rdp.min_point_rdp, lambda W: (P(W),)),
         "convex_hull.graham_scan_lower": (ch.graham_scan_lower, lambda W: (P(W),)),
         "convex_hull.graham_scan_upper": (ch.graham_scan_upper, lambda W: (P(W),)),
         "postprocessing.filter_worst_knees": (pp.filter_worst_knees, lambda W: (P(W), np.array([1]))),
         "postprocessing.filter_corner_knees": (pp.filter_corner_knees, lambda W: (P(W), np.array([1]))),
         "clustering.single_linkage": (cl.single_linkage, lambda W: (P(W), 0.2)), "clustering.complete_linkage": (cl.complete_linkage, lambda W: (P(W), 0.2)),
         "clustering.centroid_linkage": (cl.centroid_linkage, lambda W: (P(W), 0.2)), "clustering.average_linkage": (cl.average_linkage, lambda W: (P(W), 0.2))}
    return C


TINY_SHAPES = {"decay": [20.0, 6.0, 2.0, 1.0, 0.5, 0.25], "nearline": [5.0, 3.0, 2.0, 1.0, 0.0, 0.0], "line": [10.0, 8.0, 6.0, 4.0, 2.0, 0.0],
               "flat": [3.0] * 6, "rise": [0.0, 1.0, 3.0, 7.0, 8.0, 8.5], "bump": [4.0, 9.0, 2.0, 6.0, 1.0, 0.0]}


def _tiny_world(n, dtype, shape="decay"):
    y = np.array(TINY_SHAPES[shape][:n])
    x = np.arange(1, n + 1, dtype=float)
    P = np.column_stack([x, y])
    Z = np.column_stack([x, y / (y.max() + 1.0)])
    if dtype == "int64":
        P = np.column_stack([x, np.floor(y)]).astype(np.int64)
    return {"P": P, "Z": Z}


def _is_link_error(outcome, shown):
    return any(t in outcome for t in ("NameError", "AttributeError", "UnboundLocalError")) or \
        ("TypeError" in outcome and "argument" in str(shown))


def _tiny_sweep(ctx):
    C = _tiny_calls()
    n_calls = 0
    for name in sorted(C):
        fn, mk = C[name]
        for n, dt, shape in [(n, dt, sh) for n in (2, 3, 4, 5, 6) for dt in ("float64", "int64") for sh in sorted(TINY_SHAPES)]:
            if True:
                W = _tiny_world(n, dt, shape)
                out, val, _ = monitor.call(fn, mk(W), {}, budget=400000, wall=40)
                n_calls += 1
                if out != "returned" and _is_link_error(out, val):
                    ctx.violation("unlinked-at-runtime", {"kind": "tiny", "fn": name, "n": n, "dtype": dt, "shape": shape},
                                  {"outcome": out, "error": str(val)[:200]}, match="unlinked-at-runtime:%s" % name.split("[")[0])
    ctx.extra["tiny_input_calls"] = n_calls


# ---- determinism across call HISTORIES: the same call must return the same result whatever was called before it in the
# process (a module-level cache, a mutable default argument keyed by content, a memo keyed by id()).  Two fresh processes run
# every recipe once per world in opposite orders; the results must agree call by call.
def _first_pass(item):
    order, worlds, seed = item
    R = recipes.recipes()
    out = {}
    for name in order:
        fn, mk = R[name]
        for integral in worlds:
            W = recipes.World(random.Random(seed), integral)
            args0, kw0 = mk(W)
            args = [_variant(a, "C") for a in args0]
            args = [list(a) if isinstance(a, list) else a for a in args]
            o, val, _ = monitor.call(fn, tuple(args), dict(kw0), budget=400000, wall=40)
            out["%s|%d" % (name, int(integral))] = {"outcome": o, "value": _norm(val) if o == "returned" else None}
    return out


def _history_sweep(ctx, only=None):
    import multiprocessing as mp
    names = sorted(recipes.recipes())
    seed = ctx.seed * 1000 + 7
    items = [(names, (False, True), seed), (list(reversed(names)), (True, False), seed)]
    with mp.get_context("fork").Pool(2, maxtasksperchild=1) as pool:
        a, b = pool.map(_first_pass, items, chunksize=1)
    diff = 0
    for key in sorted(a):
        name = key.split("|")[0]
        if only is not None and name != only:
            continue
        ra, rb = a[key], b.get(key)
        same = rb is not None and ra["outcome"] == rb["outcome"] and (ra["outcome"] != "returned" or _same(ra["value"], rb["value"]))
        if not same:
            diff += 1
            ctx.violation("history-dependent(%s)" % name.split("[")[0], {"kind": "hist", "fn": name},
                          {"call": key, "first_order": json.dumps(ra)[:200], "reverse_order": json.dumps(rb)[:200]},
                          match="history-dependent:%s" % name.split("[")[0])
    ctx.extra["history_sweep_calls"] = 2 * len(a)
    return diff
