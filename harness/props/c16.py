"""C16 - regression metrics and linear-fit helpers equal their mathematical definitions.
M: algebraic laws of the definitions of Metrics.tla (symmetry, ranges, zero on y = y_hat, endpoint
   interpolation, corr^2 in [0,1], no line beats the best fit) as invariants of Gen_Metrics, by exact
   rational evaluation of the emitted Terms inside TLC.
G: every case of a complete small exact domain is emitted with the expected Term per function
   (Term.tla); the Terms are evaluated by the trusted evaluator harness/term.py and compared with
   kneeliverse.metrics.* (float64, int64 and mixed arrays) and kneeliverse.linear_fit.*."""
import threading
import time

import numpy as np

from harness import numeric, par
from harness.term import eval_term

ERR = ("rmse", "rmsle", "rmspe", "rpd", "smape", "residuals")   # error metrics (>= 0, 0 on y = y_hat)
SYM = ("rmse", "smape", "residuals")                            # symmetric by the property
SLACK = 1e-9


def _close(got, exp):
    return numeric.close(got, exp, rel=numeric.VAL_REL, ab=numeric.VAL_ABS)


def _libs():
    import kneeliverse.linear_fit as lf
    import kneeliverse.metrics as M
    return M, lf


def _metric_call(M, fn):
    """Name in the emitted `terms` record -> list of (label, callable(y, h)) on kneeliverse.metrics."""
    if fn == "r2":
        return [("r2", lambda y, h: M.r2(y, h)), ("r2[classic]", lambda y, h: M.r2(y, h, M.R2.classic))]
    if fn == "r2adj":
        return [("r2[adjusted]", lambda y, h: M.r2(y, h, M.R2.adjusted))]
    f = getattr(M, fn)
    return [(fn, lambda y, h: f(y, h))]


def _wrapper_call(M, lf, fn):
    """-> list of (label, callable(x, y, coef), callable(points, coef)) on kneeliverse.linear_fit."""
    if fn == "r2":
        return [("linear_r2", lambda x, y, c: lf.linear_r2(x, y, c), lambda p, c: lf.linear_r2_points(p, c)),
                ("linear_r2[classic]", lambda x, y, c: lf.linear_r2(x, y, c, M.R2.classic),
                 lambda p, c: lf.linear_r2_points(p, c, M.R2.classic))]
    if fn == "r2adj":
        return [("linear_r2[adjusted]", lambda x, y, c: lf.linear_r2(x, y, c, M.R2.adjusted),
                 lambda p, c: lf.linear_r2_points(p, c, M.R2.adjusted))]
    name = "linear_residuals" if fn == "residuals" else fn
    f, g = getattr(lf, name), getattr(lf, name + "_points")
    return [(name, lambda x, y, c: f(x, y, c), lambda p, c: g(p, c))]


def _clause(kind, fn):
    if fn == "r2adj":
        return "adjusted-correction"
    return "%s(%s)" % (kind, fn)


def _vec(qs):
    """Exact rationals [[p, q], ...] -> array variants: float64 always, int64 when integral."""
    out = [("float64", np.array([p / q for p, q in qs], dtype=np.float64))]
    if all(q == 1 for _, q in qs):
        out.append(("int64", np.array([p for p, _ in qs], dtype=np.int64)))
    return dict(out)


def _ints(v):
    return [[int(a), 1] for a in v]


class _Bad(list):
    def guard(self, clause, fn):
        try:
            fn()
        except AssertionError as ex:
            self.append((clause, ex.args[0] if ex.args else None))
        except Exception as ex:                      # the code raised: a violation of that clause
            self.append((clause, {"raised": repr(ex)[:300]}))


SHIFT = float(2 ** 27)
SHIFT_INV = ("r2", "r2adj", "rmse", "residuals")


def _check_metrics(bad, M, b, expected):
    """metrics.*(y, h) against the evaluated Terms; symmetry and range clauses."""
    yv, hv = _vec(_ints(b["y"])), _vec(b["h"])
    combos = [("float64", "float64")]
    if "int64" in hv:
        combos.append(("int64", "int64"))
    else:
        combos.append(("int64", "float64"))
    same = _ints(b["y"]) == [list(q) for q in b["h"]]
    for fn, exp in expected.items():
        for label, call in _metric_call(M, fn):
            for ty, th in combos:
                y, h = yv[ty], hv[th]
                info = {"fn": "metrics." + label, "dtypes": [ty, th], "expected": exp}

                def eq(call=call, y=y, h=h, info=info):
                    got = float(call(y.copy(), h.copy()))
                    assert _close(got, exp), dict(info, got=got)
                bad.guard(_clause("equals-definition", fn), eq)
                if fn in SHIFT_INV and ty == "float64" and th == "float64":
                    # translation invariance: the same vectors far from the origin (exactly representable) must give
                    # the same value; exposes formulas that are algebraically equal but cancel catastrophically
                    def eqs(call=call, y=y, h=h, info=info):
                        got = float(call(y + SHIFT, h + SHIFT))
                        assert numeric.close(got, exp, rel=1e-6, ab=1e-9), dict(info, got=got, shifted_by=SHIFT)
                    bad.guard(_clause("equals-definition", fn), eqs)
                if fn in ("r2", "r2adj") and ty == "float64" and th == "float64" and len(set(float(v) for v in y)) > 1:
                    # (a constant y takes the library's convention 1 - rss, which is not scale invariant: left out)
                    # scale invariance: the same vectors in tiny units (2^-20, exact): sums of squares of order 1e-12 are not "zero"
                    def eqsc(call=call, y=y, h=h, info=info):
                        got = float(call(y * 2.0 ** -20, h * 2.0 ** -20))
                        assert numeric.close(got, exp, rel=1e-9, ab=1e-12), dict(info, got=got, scaled_by="2^-20")
                    bad.guard(_clause("equals-definition", fn), eqsc)

                def rng(call=call, y=y, h=h, info=info, fn=fn):
                    got = float(call(y.copy(), h.copy()))
                    if fn in ERR:
                        assert got >= -numeric.VAL_ABS, dict(info, got=got, law=">= 0")
                        assert (not same) or abs(got) <= numeric.VAL_ABS, dict(info, got=got, law="= 0 when y = y_hat")
                    if fn == "smape":
                        assert got <= 2.0 + SLACK, dict(info, got=got, law="<= 2")
                    if fn in ("r2", "r2adj"):
                        assert got <= 1.0 + SLACK, dict(info, got=got, law="<= 1")
                        assert (not same) or _close(got, 1.0), dict(info, got=got, law="= 1 when y = y_hat")
                bad.guard("range(%s)" % ("r2" if fn == "r2adj" else fn), rng)
                if fn in SYM:
                    def sym(call=call, y=y, h=h, info=info):
                        g1, g2 = float(call(y.copy(), h.copy())), float(call(h.copy(), y.copy()))
                        assert _close(g1, g2), dict(info, got=g1, swapped=g2)
                    bad.guard("symmetric(%s)" % fn, sym)


def _check_line(bad, M, lf, b, expected):
    """linear_fit wrappers on (x, y, (b, m)) against the same Terms; linear_transform against h."""
    xv, yv = _vec(_ints(b["x"])), _vec(_ints(b["y"]))
    bq, mq = b["b"], b["m"]
    coefs = [("float", (bq[0] / bq[1], mq[0] / mq[1]))]
    if bq[1] == 1 and mq[1] == 1:
        coefs.append(("int", (int(bq[0]), int(mq[0]))))
    hexp = [p / q for p, q in b["h"]]
    for ty in ("float64", "int64"):
        x, y = xv[ty], yv[ty]
        pts = np.column_stack([x, y])
        for tc, coef in coefs:
            info = {"dtype": ty, "coef": tc}

            def tr(x=x, pts=pts, coef=coef, info=info):
                for name, got in (("linear_transform", lf.linear_transform(x.copy(), coef)),
                                  ("linear_transform_points", lf.linear_transform_points(pts.copy(), coef))):
                    got = np.asarray(got, dtype=float)
                    assert got.shape == (len(hexp),), dict(info, fn=name, shape=list(got.shape))
                    for i in range(len(hexp)):
                        assert _close(got[i], hexp[i]), dict(info, fn=name, i=i, got=float(got[i]), expected=hexp[i])
            bad.guard("equals-definition(linear_transform)", tr)
            for fn, exp in expected.items():
                for label, f, g in _wrapper_call(M, lf, fn):
                    def wr(f=f, g=g, label=label, x=x, y=y, pts=pts, coef=coef, info=info, exp=exp):
                        got = float(f(x.copy(), y.copy(), coef))
                        assert _close(got, exp), dict(info, fn="linear_fit." + label, got=got, expected=exp)
                        got = float(g(pts.copy(), coef))
                        assert _close(got, exp), dict(info, fn="linear_fit." + label + "_points", got=got, expected=exp)
                        if fn in SHIFT_INV and ty == "float64" and tc == "float":
                            got = float(f(x.copy(), y + SHIFT, (coef[0] + SHIFT, coef[1])))
                            assert numeric.close(got, exp, rel=1e-6, ab=1e-9), dict(info, fn="linear_fit." + label, got=got, expected=exp, shifted_by=SHIFT)
                        if fn in ("r2", "r2adj") and ty == "float64" and tc == "float" and len(set(float(v) for v in y)) > 1:
                            sc = 2.0 ** -20
                            got = float(f(x.copy(), y * sc, (coef[0] * sc, coef[1] * sc)))
                            assert numeric.close(got, exp, rel=1e-9, ab=1e-12), dict(info, fn="linear_fit." + label, got=got, expected=exp, scaled_by="2^-20")
                    bad.guard(_clause("wrapper-equals-metric", fn), wr)


def _check_fit(bad, M, lf, b):
    xv, yv = _vec(_ints(b["x"])), _vec(_ints(b["y"]))
    n = len(b["x"])
    eb, em = eval_term(b["b"]), eval_term(b["m"])
    yhat = [eval_term(t) for t in b["yhat"]]
    xhat = [eval_term(t) for t in b["xhat"]]
    fitres, hvres = eval_term(b["fitres"]), eval_term(b["hvres"])
    best = eval_term(b["best"]) if "best" in b else None
    bestadj = eval_term(b["bestadj"]) if "bestadj" in b else None
    for ty in ("float64", "int64"):
        x, y = xv[ty], yv[ty]
        pts = np.column_stack([x, y])
        info = {"dtype": ty}

        def fit():
            for name, got in (("linear_fit", lf.linear_fit(x.copy(), y.copy())),
                              ("linear_fit_points", lf.linear_fit_points(pts.copy()))):
                gb, gm = float(got[0]), float(got[1])
                assert _close(gb, eb) and _close(gm, em), dict(info, fn=name, got=[gb, gm], expected=[eb, em])
        bad.guard("equals-definition(linear_fit)", fit)

        def interp():
            coef = lf.linear_fit(x.copy(), y.copy())
            line = np.asarray(lf.linear_transform(x.copy(), coef), dtype=float)
            if b["x"][0] != b["x"][-1]:
                assert _close(line[0], b["y"][0]) and _close(line[-1], b["y"][-1]), \
                    dict(info, line=line.tolist(), first=b["y"][0], last=b["y"][-1])
        bad.guard("endpoint-fit-interpolates", interp)

        if ty == "float64" and b["x"][0] != b["x"][-1]:
            def fitshift():
                # the same points far to the right (2^30, 2^40: abscissae stay exactly representable): the end-point fit is
                # translation covariant - same slope, still through the first and last point.  A relative comparison of the
                # two end abscissae (np.isclose / math.isclose) calls such a range "vertical".
                for X0 in (2.0 ** 30, 2.0 ** 40):
                    xs = x + X0
                    for name, got in (("linear_fit", lf.linear_fit(xs.copy(), y.copy())),
                                      ("linear_fit_points", lf.linear_fit_points(np.column_stack([xs, y])))):
                        gm = float(got[1])
                        assert numeric.close(gm, em, rel=1e-9, ab=1e-12), dict(info, fn=name, x_offset=X0, got_slope=gm, expected_slope=em)
                        line = np.asarray(lf.linear_transform(xs.copy(), got), dtype=float)
                        tol = 1e-3 * (1.0 + abs(em))
                        assert abs(line[0] - b["y"][0]) <= tol and abs(line[-1] - b["y"][-1]) <= tol, \
                            dict(info, fn=name, x_offset=X0, line=[float(line[0]), float(line[-1])], first=b["y"][0], last=b["y"][-1])
            bad.guard("equals-definition(linear_fit)", fitshift)

        def res():
            for name, got, exp in (("linear_fit_residuals", lf.linear_fit_residuals(x.copy(), y.copy()), fitres),
                                   ("linear_fit_residuals_points", lf.linear_fit_residuals_points(pts.copy()), fitres),
                                   ("linear_hv_residuals", lf.linear_hv_residuals(x.copy(), y.copy()), hvres),
                                   ("linear_hv_residuals_points", lf.linear_hv_residuals_points(pts.copy()), hvres)):
                assert _close(float(got), exp), dict(info, fn=name, got=float(got), expected=exp)
        bad.guard("equals-definition(linear_fit_residuals)", res)

        def ft():
            for name, got in (("linear_fit_transform", lf.linear_fit_transform(x.copy(), y.copy())),
                              ("linear_fit_transform_points", lf.linear_fit_transform_points(pts.copy()))):
                got = np.asarray(got, dtype=float)
                assert got.shape == (n,) and all(_close(got[i], yhat[i]) for i in range(n)), \
                    dict(info, fn=name, got=got.tolist(), expected=yhat)
            # vertical=True: the better of y(x) and x(y) by residuals (ties: either, see assumptions)
            allowed = []
            if b["horizontal"] or b["tie"]:
                allowed.append(([float(v) for v in b["y"]], yhat))
            if (not b["horizontal"]) or b["tie"]:
                allowed.append(([float(v) for v in b["x"]], xhat))
            for name, got in (("linear_fit_transform[vertical]", lf.linear_fit_transform(x.copy(), y.copy(), True)),
                              ("linear_fit_transform_points[vertical]", lf.linear_fit_transform_points(pts.copy(), True))):
                assert isinstance(got, tuple) and len(got) == 2, dict(info, fn=name, got=repr(got)[:200])
                d, p = np.asarray(got[0], dtype=float), np.asarray(got[1], dtype=float)
                ok = any(d.shape == (n,) and p.shape == (n,) and
                         all(_close(d[i], ad[i]) and _close(p[i], ap[i]) for i in range(n)) for ad, ap in allowed)
                assert ok, dict(info, fn=name, got=[d.tolist(), p.tolist()], allowed=allowed)
        bad.guard("equals-definition(linear_fit_transform)", ft)

        if best is not None:
            def bf():
                for name, got in (("r2", lf.r2(x.copy(), y.copy())), ("r2[classic]", lf.r2(x.copy(), y.copy(), M.R2.classic)),
                                  ("r2_points", lf.r2_points(pts.copy()))):
                    assert _close(float(got), best), dict(info, fn="linear_fit." + name, got=float(got), expected=best)
            bad.guard("bestfit-r2-is-corr2", bf)

            def bfr():
                got = float(lf.r2(x.copy(), y.copy()))
                assert -SLACK <= got <= 1.0 + SLACK, dict(info, fn="linear_fit.r2", got=got, law="in [0, 1]")
            bad.guard("range(bestfit-r2)", bfr)
        if bestadj is not None:
            def ba():
                for name, got in (("r2[adjusted]", lf.r2(x.copy(), y.copy(), M.R2.adjusted)),
                                  ("r2_points[adjusted]", lf.r2_points(pts.copy(), M.R2.adjusted))):
                    assert _close(float(got), bestadj), dict(info, fn="linear_fit." + name, got=float(got), expected=bestadj)
            bad.guard("adjusted-correction", ba)


def _check_eps(bad, M, lf, b):
    """the optional eps argument at a non-default value (1/4, exact): the same Terms with eps = 1/4 substituted"""
    from fractions import Fraction
    from harness.term import eval_term_eps
    yv, hv = _vec(_ints(b["y"])), _vec(b["h"])
    y, h = yv["float64"], hv["float64"]
    for fn in ("rmspe", "rpd", "smape"):
        if fn not in b["terms"]:
            continue
        exp = eval_term_eps(b["terms"][fn], Fraction(1, 4))

        def f(fn=fn, exp=exp):
            got = float(getattr(M, fn)(y.copy(), h.copy(), 0.25))
            assert _close(got, exp), {"fn": "metrics.%s(eps=0.25)" % fn, "got": got, "expected": exp}
        bad.guard(_clause("equals-definition", fn), f)
        if b["kind"] == "line":
            xv = _vec(_ints(b["x"]))["float64"]
            coef = (b["b"][0] / b["b"][1], b["m"][0] / b["m"][1])

            def g(fn=fn, exp=exp):
                got = float(getattr(lf, fn)(xv.copy(), y.copy(), coef, 0.25))
                assert _close(got, exp), {"fn": "linear_fit.%s(eps=0.25)" % fn, "got": got, "expected": exp}
                got = float(getattr(lf, fn + "_points")(np.column_stack([xv, y]), coef, 0.25))
                assert _close(got, exp), {"fn": "linear_fit.%s_points(eps=0.25)" % fn, "got": got, "expected": exp}
            bad.guard(_clause("wrapper-equals-metric", fn), g)


def _check(b):
    M, lf = _libs()
    bad = _Bad()
    k = b["kind"]
    if k in ("pair", "line"):
        expected = {fn: eval_term(t) for fn, t in b["terms"].items()}
        _check_metrics(bad, M, b, expected)
        _check_eps(bad, M, lf, b)
        if k == "line":
            _check_line(bad, M, lf, b, expected)
    elif k == "fit":
        _check_fit(bad, M, lf, b)
    elif k == "angle" and b["defined"]:
        exp = eval_term(b["angle"])
        m1, m2 = b["m1"][0] / b["m1"][1], b["m2"][0] / b["m2"][1]

        def an():
            got = float(lf.angle((0.0, m1), (1.0, m2)))
            assert _close(abs(got), exp), {"fn": "linear_fit.angle", "got": got, "expected_magnitude": exp}
        bad.guard("equals-definition(angle)", an)
    return list(bad)


def _check_many(bs):
    return [_check(b) for b in bs]


def _key(b):
    return [b["kind"]] + [b.get(f) for f in ("x", "y", "h", "b", "m", "m1", "m2")
                          if f in b and not isinstance(b.get(f), dict)]


def _nontrivial(b):
    k = b["kind"]
    if k == "pair":
        return _ints(b["y"]) != [list(q) for q in b["h"]]
    if k == "line":
        return len(b["x"]) >= 2
    if k == "fit":
        return b["x"][0] != b["x"][-1]
    return bool(b["defined"])


def _warm():
    """Compile the numba signatures once, before the worker processes are forked (runs while TLC runs).
    Mirrors the calls of _check_metrics / _check_line: dtypes, contiguous and column-view layouts, coefficient types."""
    try:
        M, lf = _libs()
        fns = ERR + ("r2", "r2adj")
        yi, hi = np.array([1, 2, 4], dtype=np.int64), np.array([1, 3, 3], dtype=np.int64)
        yf, hf = yi.astype(float), hi.astype(float) + 0.5
        for ya, ha in ((yf, hf), (yi, hi), (yi, hf)):
            for fn in fns:
                for _, call in _metric_call(M, fn):
                    call(ya, ha)
                    call(ha, ya)
        for x, y in ((yf, hf - 0.5), (yi, hi)):
            pts = np.column_stack([x, y])
            for coef in ((0.5, 1.0), (1, 2)):
                for fn in fns:
                    for _, f, g in _wrapper_call(M, lf, fn):
                        f(x, y, coef)
                        g(pts, coef)
            lf.linear_fit_residuals(x, y)
            lf.linear_fit_residuals_points(pts)
            lf.linear_hv_residuals(x, y)
            lf.linear_hv_residuals_points(pts)
    except Exception:
        pass            # a tree on which this raises is judged by the replay, case by case


def _long_vectors():
    """definitions on LONG vectors (chunking / fast paths that depend on the length): independent evaluation with
    math.fsum, lengths that are not multiples of any usual block size.  Returns (clause, detail) mismatches."""
    import math
    M, lf = _libs()
    eps = 1e-16
    bad = []
    for n in (2051, 4099, 70001):
        i = np.arange(n, dtype=float)
        y = ((7 * i) % 13) / 4.0 + 0.25
        h = ((5 * i) % 11) / 4.0 + 0.5
        h[-3:] = h[-3:] + 40.0                   # a few large errors at the very end (a short last block matters)
        x = 2.0 * i + 1.0
        coef = (0.5, 0.001)
        lh = x * coef[1] + coef[0]
        f = math.fsum
        defs = {
            "rmse": lambda a, b: math.sqrt(f((a - b) ** 2) / n),
            "rmsle": lambda a, b: math.sqrt(f((np.log(a + 1) - np.log(b + 1)) ** 2) / n),
            "rmspe": lambda a, b: math.sqrt(f(((a - b) / (a + eps)) ** 2) / n),
            "rpd": lambda a, b: f(np.abs((a - b) / (np.maximum(a, b) + eps))) / n,
            "smape": lambda a, b: f(2.0 * np.abs(b - a) / (np.abs(a) + np.abs(b) + eps)) / n,
            "residuals": lambda a, b: f((a - b) ** 2),
            "r2": lambda a, b: 1.0 - f((a - b) ** 2) / f((a - f(a) / n) ** 2),
        }
        for name, d in defs.items():
            exp = d(y, h)
            try:
                got = float(getattr(M, name)(y.copy(), h.copy()))
                if not numeric.close(got, exp, rel=1e-9, ab=1e-12):
                    bad.append((_clause("equals-definition", name), {"fn": "metrics." + name, "n": n, "got": got, "expected": exp}))
            except Exception as ex:
                bad.append((_clause("equals-definition", name), {"fn": "metrics." + name, "n": n, "raised": repr(ex)[:200]}))
            wname = {"residuals": "linear_residuals", "r2": "linear_r2"}.get(name, name)
            expw = d(y, lh)
            pts = np.column_stack([x, y])
            for label, call in ((wname, lambda: getattr(lf, wname)(x.copy(), y.copy(), coef)),
                                (wname + "_points", lambda: getattr(lf, wname + "_points")(pts.copy(), coef))):
                try:
                    got = float(call())
                    if not numeric.close(got, expw, rel=1e-9, ab=1e-12):
                        bad.append((_clause("wrapper-equals-metric", name), {"fn": "linear_fit." + label, "n": n, "got": got, "expected": expw}))
                except Exception as ex:
                    bad.append((_clause("wrapper-equals-metric", name), {"fn": "linear_fit." + label, "n": n, "raised": repr(ex)[:200]}))
    return bad


def run(ctx):
    ctx.rule = ("TLC enumerates complete small domains: all vector pairs (y, y_hat) with entries 0..V and length 1..N; "
                "all lines b in 0..B, m in {-2,-1,-1/2,0,1/2,1,2} over strictly increasing integer x with integer y; "
                "all integer point sets (x, y) for the endpoint / best fit; all slope pairs for angle. Expected values "
                "are Terms built by Metrics.tla and evaluated exactly (eps = 10^-16 as a Fraction). "
                "non-trivial: y != y_hat / at least two points / x1 != xn / angle defined")
    ctx.assumptions += numeric.ASSUMPTIONS + [
        "Terms are evaluated over exact rationals; sqrt, log(1+x) and atan are applied in binary64 to the correctly "
        "rounded exact argument (harness/term.py, trusted)",
        "ratio / log metrics (rmsle, rmspe, rpd) are exercised only where y, y_hat >= 0; rmse, residuals, r2 and smape "
        "also with negative y_hat (lines with negative slope)",
        "adjusted R2 only for n >= 3; best-fit R2 for n >= 3 only where neither x nor y is constant (np.corrcoef is nan there)",
        "linear_fit_transform(vertical=True): on an exact tie of the two residuals either orientation is accepted",
        "linear_fit.angle is compared in magnitude (the library returns the signed angle atan((m1-m2)/(1+m1 m2))); "
        "slope pairs with 1 + m1 m2 = 0 are excluded",
        "laws with eps are checked inside TLC with the stand-ins eps in {1, 1/4} (they hold for every eps > 0; "
        "10^-16 does not fit TLC's 32-bit integers); Rmsle is not rational and has no TLC-side law",
    ]
    t0 = time.time()
    warm = threading.Thread(target=_warm)
    warm.start()
    cfg = "Gen_Metrics_quick" if ctx.quick else "Gen_Metrics_thorough"
    try:
        beh = ctx.gen("Gen_Metrics", cfg, workers=16, timeout=1500)
    finally:
        warm.join()
    t1 = time.time()
    beh.sort(key=lambda b: repr(_key(b)))
    ctx.exhaustive = True
    size = max(1, min(100, len(beh) // 64))
    chunks = [beh[i:i + size] for i in range(0, len(beh), size)]
    res = [r for rs in par.pmap(_check_many, chunks) for r in rs]
    ctx.extra["timing_s"] = {"generate_and_laws": round(t1 - t0, 1), "replay": round(time.time() - t1, 1)}
    seen = set()
    kinds = {}
    for b, bad in zip(beh, res):
        kinds[b["kind"]] = kinds.get(b["kind"], 0) + 1
        ctx.count(_key(b), _nontrivial(b))
        for clause, detail in bad:
            key = (clause, b["kind"])
            if key in seen:          # one replay file per (clause, kind) reproduces; the rest are counted
                ctx.extra["suppressed_duplicates"] = ctx.extra.get("suppressed_duplicates", 0) + 1
                continue
            seen.add(key)
            ctx.violation(clause, {"kind": "G", "behaviour": b}, detail)
    ctx.traces += len(beh)
    ctx.extra["behaviours_by_kind"] = kinds
    # long vectors (not generated by TLC: the definitions are evaluated by the harness with math.fsum)
    lv = _long_vectors()
    ctx.extra["long_vector_lengths"] = [2051, 4099, 70001]
    ctx.count(("long-vectors",), True)
    for clause, detail in lv[:6]:
        ctx.violation(clause, {"kind": "long"}, detail)
    ctx.assumptions.append("long vectors (n = 2051, 4099, 70001) are compared with an independent math.fsum evaluation of the "
                           "same definitions (TLC does not generate these cases)")
    for want in (lambda b: b["kind"] == "pair" and b["y"] == [0, 2] and b["h"] == [[1, 1], [3, 1]],
                 lambda b: b["kind"] == "line" and len(b["x"]) == 2 and b["m"] == [1, 2] and b["y"] == [0, 1],
                 lambda b: b["kind"] == "fit" and b["x"] == [0, 1, 2] and b["y"] == [0, 2, 1]):
        s = next((b for b in beh if want(b)), None)
        if s is not None:
            ctx.sample({"binding": "G", "behaviour": s})


def replay(ctx, obj):
    case = obj["case"]
    if case.get("kind") == "long":
        for clause, detail in _long_vectors():
            ctx.violation(clause, case, detail)
        return
    for clause, detail in _check(case["behaviour"]):
        ctx.violation(clause, case, detail)
