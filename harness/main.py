"""bin/check entry point: runs one property's check and writes its evidence file.

Exit status: 0 property held on everything explored (KNOWN-FINDING lines allowed),
1 at least one unlisted violation (one "VIOLATION property=<id> replay=<path>" line each),
2 machinery failure (TLC crash, vacuous coverage, binding self-test accepted a corrupted trace...).
"""
import argparse
import hashlib
import importlib
import json
import os
import random
import shutil
import sys
import time
import traceback

ROOT = os.path.dirname(os.path.dirname(os.path.abspath(__file__)))
sys.path.insert(0, ROOT)
# Runs against another checkout (KNEE_REPO, used for self-tests on mutated scratch copies) must never overwrite the
# evidence and replay files of the real tree.
ALT = os.environ.get("KNEE_REPO", "/repo").rstrip("/") != "/repo"
OUT = os.path.join(ROOT, ".scratch", "alt") if ALT else ROOT

from harness import tlc  # noqa: E402


class Machinery(Exception):
    pass


def jhash(obj):
    return hashlib.sha256(json.dumps(obj, sort_keys=True, default=str).encode()).hexdigest()[:16]


def _shorten(o, maxlist=24, depth=0):
    """samples are for a reader: long lists are cut (the head is kept and the length is stated)"""
    if isinstance(o, dict):
        return {k: _shorten(v, maxlist, depth + 1) for k, v in o.items()}
    if isinstance(o, (list, tuple)):
        if len(o) > maxlist:
            return [_shorten(v, maxlist, depth + 1) for v in o[:maxlist]] + ["... (%d items in total)" % len(o)]
        return [_shorten(v, maxlist, depth + 1) for v in o]
    return o


class Ctx:
    def __init__(self, pid, tier, seed):
        self.pid = pid
        self.tier = tier
        self.seed = seed
        self.rng = random.Random(seed * 1000003 + int(pid[1:]))
        self.scratch = os.path.join(ROOT, ".scratch", "%s_%d" % (pid, os.getpid()))
        os.makedirs(self.scratch, exist_ok=True)
        self.t0 = time.time()
        self.states = 0
        self.transitions = 0
        self.traces = 0
        self.evaluations = 0
        self.nontrivial = set()
        self.samples = []
        self.violations = []
        self.known_hits = []
        self.notes = []
        self.assumptions = []
        self.tlc_runs = []
        self.exhaustive = None
        self.rule = ""
        self.extra = {}
        self.known = load_known()
        self.quick = tier == "quick"

    # ---------------------------------------------------------------- TLC bindings
    def _account(self, r, label, kind):
        self.states += r.distinct
        self.transitions += r.generated
        self.tlc_runs.append({"run": label, "kind": kind, "distinct_states": r.distinct,
                              "states_generated": r.generated, "depth": r.depth,
                              "wall_s": round(r.wall_s, 2),
                              "actions": {k: v[1] for k, v in r.coverage.items()}})

    def mc(self, module, cfg=None, expect=None, need_actions=(), workers=16, timeout=900, **kw):
        """Binding M.  expect=None: positive instance, must complete without error.
        expect="InvName"/"<temporal>"/"<deadlock>": negative instance, TLC must report exactly that."""
        label = cfg or module
        r = tlc.run(module, cfg, scratch=self.scratch, workers=workers, timeout=timeout, **kw)
        self._account(r, label, "M" if expect is None else "M-negative")
        if r.timed_out:
            raise Machinery("TLC timed out on %s" % label)
        if expect is None:
            if not r.ok:
                raise Machinery("model-checking instance %s failed: violated=%s\n%s" %
                                (label, r.violated, (r.error_text or r.stdout[-2500:])))
            for a in need_actions:
                if r.coverage.get(a, (0, 0))[1] == 0:
                    raise Machinery("vacuity: action %s of %s was never taken (coverage %s)" %
                                    (a, label, r.coverage))
        else:
            # a negative instance's cfg lists exactly ONE invariant / property: with several, which one 16 workers report
            # first is a race (vp run #12: MC_FixedSizeRefines_neg reported AbsInv instead of ExitAgrees under load)
            if r.violated not in str(expect).split("|"):
                raise Machinery("negative instance %s lost its sensitivity: expected %s, TLC reported %s\n%s"
                                % (label, expect, r.violated, r.stdout[-1500:]))
        return r

    def gen(self, module, cfg=None, env=None, timeout=900, simulate=None, depth=None, workers=1):
        """Binding G: run a generator module; returns the list of JSON behaviours it printed."""
        label = cfg or module
        r = tlc.run(module, cfg, scratch=self.scratch, workers=workers, timeout=timeout, env=env,
                    coverage=False, simulate=simulate, depth=depth,
                    seed=(self.seed if simulate else None))
        self._account(r, label, "G")
        if r.timed_out or not r.ok:
            raise Machinery("generator %s failed (timed_out=%s):\n%s" % (label, r.timed_out, r.stdout[-2500:]))
        out = []
        seen = set()
        for p in r.prints:            # an action can be evaluated more than once by TLC: de-duplicate
            if p in seen:
                continue
            seen.add(p)
        r.prints = list(seen) if False else [p for p in dict.fromkeys(r.prints)]
        out = r.json_prints()
        if not out:
            raise Machinery("generator %s produced no behaviours" % label)
        return out

    def trace(self, module, cases, cfg=None, env=None, chunk=1500, timeout=900, selftest=None, procs=6):
        """Binding T: validate recorded cases (list of dicts with an 'id') against spec/<module>.tla.
        Returns {id: [clause, detail...]} for every rejected case.  selftest: list of
        (case, expected_clause_or_None) deliberately corrupted cases that MUST be rejected."""
        import concurrent.futures as cf
        cases = list(cases)
        st = []
        if selftest:
            for k, (c, _) in enumerate(selftest):
                c = dict(c)
                c["id"] = "SELFTEST-%d" % k
                st.append(c)
        allc = st + cases
        if not allc:
            return {}
        ids = [c["id"] for c in allc]
        if len(set(ids)) != len(ids):
            raise Machinery("duplicate case ids in trace batch for %s" % module)
        chunks = [allc[i:i + chunk] for i in range(0, len(allc), chunk)]
        rejected = {}

        def one(k_ch):
            k, ch = k_ch
            import tempfile
            fd, path = tempfile.mkstemp(prefix="cases_%s_%d_" % (module, k), suffix=".json", dir=self.scratch)
            with os.fdopen(fd, "w") as f:
                json.dump(ch, f)
            e = {"CASES_FILE": path}
            if env:
                e.update(env)
            r = tlc.run(module, cfg, scratch=self.scratch, workers=1, timeout=timeout, env=e, coverage=False)
            os.unlink(path)
            return ch, r

        with cf.ThreadPoolExecutor(max_workers=procs) as ex:
            results = list(ex.map(one, list(enumerate(chunks))))
        for ch, r in results:
            self._account(r, module, "T")
            if r.timed_out or not r.ok:
                raise Machinery("trace validator %s failed (timed_out=%s):\n%s\n...\n%s" %
                                (module, r.timed_out, r.error_text[:1500], r.stdout[-1500:]))
            done = r.tuple_prints("DONE")
            if not done or done[-1][1] != len(ch):
                raise Machinery("trace validator %s did not reach every case: %s of %d\n%s" %
                                (module, done, len(ch), r.stdout[-1500:]))
            for v in r.tuple_prints("VERDICT"):
                rejected.setdefault(v[1], []).append(v[2:])
        for k, (c, clause) in enumerate(selftest or []):
            sid = "SELFTEST-%d" % k
            if clause == "ok":           # the static good case must be accepted
                if sid in rejected:
                    raise Machinery("binding self-test: %s rejected the static good case: %s" % (module, rejected[sid]))
                continue
            if sid not in rejected:
                raise Machinery("binding self-test: %s accepted a corrupted case (%s)" % (module, clause))
            if clause is not None and not any(v[0] == clause for v in rejected[sid]):
                raise Machinery("binding self-test: %s rejected the corrupted case with %s, expected clause %s"
                                % (module, rejected[sid], clause))
            del rejected[sid]
        self.traces += len(cases)
        self.extra["binding_selftests"] = self.extra.get("binding_selftests", 0) + len(selftest or [])
        return rejected

    # ---------------------------------------------------------------- bookkeeping
    def count(self, case_key, nontrivial):
        """One explored case.  case_key: anything hashable/JSON-able identifying the case."""
        self.evaluations += 1
        if nontrivial:
            self.nontrivial.add(case_key if isinstance(case_key, (str, int)) else jhash(case_key))

    def count_many(self, evaluations, nontrivial_keys):
        self.evaluations += evaluations
        self.nontrivial.update(nontrivial_keys)

    def sample(self, obj, limit=4):
        if len(self.samples) < limit:
            self.samples.append(_shorten(obj))

    def note(self, text):
        if len(self.notes) < 50:
            self.notes.append(text)

    def violation(self, clause, case, detail=None, match=None):
        """Report a violation of the property.  `case` must be replayable (see --replay).
        `match` is the string compared with known_findings entries."""
        match = match or clause
        for k in self.known:
            if k.get("property") == self.pid and k.get("status") == "known" and k.get("match") == match:
                if match not in self.known_hits:
                    self.known_hits.append(match)
                    print("KNOWN-FINDING: property=%s %s" % (self.pid, k.get("what", match)))
                return
        self.extra.setdefault("violations_by_clause", {})
        self.extra["violations_by_clause"][clause] = self.extra["violations_by_clause"].get(clause, 0) + 1
        if len(self.violations) >= 25 or self.extra["violations_by_clause"][clause] > 6:
            self.extra["violations_not_listed"] = self.extra.get("violations_not_listed", 0) + 1
            if not self.violations:
                pass
            else:
                return
        d = os.path.join(OUT, "replays", self.pid)
        os.makedirs(d, exist_ok=True)
        obj = {"property": self.pid, "clause": clause, "detail": detail, "case": case}
        path = os.path.join(d, jhash(obj) + ".json")
        if path in self.violations:
            return
        with open(path, "w") as f:
            json.dump(obj, f, indent=1, default=str)
        self.violations.append(path)
        print("VIOLATION property=%s replay=%s" % (self.pid, path))
        print("  clause=%s detail=%s" % (clause, json.dumps(detail, default=str)[:600]))
        sys.stdout.flush()

    def write_evidence(self, status):
        ev = {
            "property_id": self.pid,
            "tier": self.tier,
            "seed": self.seed,
            "level": "model_checking",
            "coverage": {
                "states": self.states,
                "transitions": self.transitions,
                "traces_validated_against_impl": self.traces,
                "evaluations": self.evaluations,
                "distinct_nontrivial": len(self.nontrivial),
                "rule": self.rule,
                "samples": self.samples or [{"note": "no sample recorded"}],
                "tlc_runs": self.tlc_runs,
                "notes": self.notes,
                "known_findings_hit": self.known_hits,
                "status": status,
            },
            "assumptions": self.assumptions,
            "wall_s": round(time.time() - self.t0, 2),
            "violations": len(self.violations),
        }
        if self.exhaustive is not None:
            ev["coverage"]["exhaustive"] = bool(self.exhaustive)
        ev["coverage"].update(self.extra)
        os.makedirs(os.path.join(OUT, "evidence"), exist_ok=True)
        tmp = os.path.join(OUT, "evidence", self.pid + ".json.tmp")
        with open(tmp, "w") as f:
            json.dump(ev, f, indent=1, default=str)
        os.replace(tmp, os.path.join(OUT, "evidence", self.pid + ".json"))

    def cleanup(self):
        shutil.rmtree(self.scratch, ignore_errors=True)


def load_known():
    p = os.path.join(ROOT, "known_findings.json")
    if not os.path.exists(p):
        return []
    with open(p) as f:
        return json.load(f).get("findings", [])


def main(argv=None):
    ap = argparse.ArgumentParser()
    ap.add_argument("pid")
    ap.add_argument("--tier", default=os.environ.get("VERIF_TIER", "quick"), choices=["quick", "thorough"])
    ap.add_argument("--replay")
    a = ap.parse_args(argv)
    seed = int(os.environ.get("VERIF_SEED", "0") or 0)
    pid = a.pid.upper()
    os.environ["KNEE_CHECK_ID"] = pid
    ctx = Ctx(pid, a.tier, seed)
    status = "ok"
    rc = 0
    try:
        mod = importlib.import_module("harness.props.%s" % pid.lower())
        if a.replay:
            with open(a.replay) as f:
                obj = json.load(f)
            mod.replay(ctx, obj)
        else:
            cdir = os.path.join(ROOT, "corpus", pid)
            if os.path.isdir(cdir):
                for fn in sorted(os.listdir(cdir)):
                    if fn.endswith(".json"):
                        with open(os.path.join(cdir, fn)) as f:
                            mod.replay(ctx, json.load(f))
                        ctx.extra["corpus_replayed"] = ctx.extra.get("corpus_replayed", 0) + 1
            mod.run(ctx)
        if ctx.violations:
            rc = 1
            status = "violations"
    except (Machinery, tlc.TLCFailure) as ex:
        print("MACHINERY-FAILURE property=%s %s" % (pid, ex))
        try:
            with open(os.path.join(ROOT, ".scratch", "failures.log"), "a") as f:
                f.write("==== %s %s tier=%s\n%s\n" % (time.strftime("%H:%M:%S"), pid, a.tier, str(ex)[:6000]))
        except Exception:
            pass
        status = "machinery failure: %s" % str(ex)[:400]
        rc = 2
    except Exception:
        traceback.print_exc()
        try:
            with open(os.path.join(ROOT, ".scratch", "failures.log"), "a") as f:
                f.write("==== %s %s tier=%s\n%s\n" % (time.strftime("%H:%M:%S"), pid, a.tier, traceback.format_exc()[:6000]))
        except Exception:
            pass
        status = "machinery failure: unexpected exception"
        rc = 2
    finally:
        if not a.replay:
            try:
                ctx.write_evidence(status)
            except Exception:
                traceback.print_exc()
                rc = rc or 2
        ctx.cleanup()
    print("check %s tier=%s seed=%d: %s  (%d evaluations, %d distinct non-trivial, %d TLC states, "
          "%d traces bound to the implementation, %.1fs)" %
          (pid, a.tier, seed, "PASS" if rc == 0 else ("VIOLATIONS" if rc == 1 else "MACHINERY FAILURE"),
           ctx.evaluations, len(ctx.nontrivial), ctx.states, ctx.traces, time.time() - ctx.t0))
    return rc


if __name__ == "__main__":
    sys.exit(main())
