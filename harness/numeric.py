"""The numeric boundary (DESIGN 3.2): floats never enter TLC.  This module only computes tables
(ranks, classes); it never computes a verdict."""
import math
import numpy as np

REL = 1e-9      # relative noise for "beyond rounding noise" / argmax classes
ABS = 1e-12     # absolute noise near zero
VAL_REL = 1e-9  # agreement of a real value with its definition (Term evaluation)
VAL_ABS = 1e-12

ASSUMPTIONS = [
    "numeric policy: values closer than rel 1e-9 / abs 1e-12 share a rank (noise-merged dense ranks); "
    "accept/reject classes are bit-exact comparisons of the library's own primitive with the threshold; "
    "real values are compared with their exact-rational definition within rel 1e-9 / abs 1e-12",
]


def close(a, b, rel=REL, ab=ABS):
    a = float(a); b = float(b)
    if math.isnan(a) or math.isnan(b):
        return math.isnan(a) and math.isnan(b)
    if math.isinf(a) or math.isinf(b):
        return a == b
    return abs(a - b) <= max(ab, rel * max(abs(a), abs(b)))


def ranks(v, rel=REL, ab=ABS):
    """Dense ranks (0 = smallest) with neighbours closer than the noise sharing a rank.
    NaN entries get rank -1."""
    v = [float(x) for x in v]
    idx = [i for i in range(len(v)) if not math.isnan(v[i])]
    idx.sort(key=lambda i: v[i])
    r = [-1] * len(v)
    cur = 0
    for j, i in enumerate(idx):
        if j > 0:
            a, b = v[idx[j - 1]], v[i]
            if not (abs(b - a) <= max(ab, rel * max(abs(a), abs(b)))):
                cur += 1
        r[i] = cur
    return r


def scaled_ranks(v, rel=REL):
    """Ranks with a noise floor relative to the largest magnitude in the vector (for distance
    vectors where values near 0 are rounding noise of magnitudes like |chord|)."""
    v = [float(x) for x in v]
    m = max([abs(x) for x in v if not math.isnan(x)] + [0.0])
    return ranks(v, rel=rel, ab=max(ABS, rel * m))


def finite(x):
    return bool(np.all(np.isfinite(x)))
