"""Program facts for the static half of C20 (Linkage.tla): extracted with `ast` from every module under
src/kneeliverse, plus `dir()` tables of the objects attribute chains are rooted at and `inspect` signatures of the
package's own functions.  This extractor is the trusted base of the static half; it computes facts, not verdicts."""
import ast
import builtins
import importlib
import inspect
import os
import types


def _modname(path, root):
    rel = os.path.relpath(path, root)[:-3].replace(os.sep, ".")
    return rel[:-9] if rel.endswith(".__init__") else rel


class _Scope:
    def __init__(self, sid, kind, parent):
        self.sid, self.kind, self.parent = sid, kind, parent
        self.locals = set()
        self.globals = set()


def _targets(node, out):
    if isinstance(node, ast.Name):
        out.add(node.id)
    elif isinstance(node, (ast.Tuple, ast.List)):
        for e in node.elts:
            _targets(e, out)
    elif isinstance(node, ast.Starred):
        _targets(node.value, out)


def _collect_locals(fn_body_nodes, scope):
    """names bound in this scope (not descending into nested function/class/lambda/comprehension scopes)."""
    stack = list(fn_body_nodes)
    while stack:
        n = stack.pop()
        if isinstance(n, (ast.FunctionDef, ast.AsyncFunctionDef, ast.ClassDef)):
            scope.locals.add(n.name)
            continue
        if isinstance(n, ast.Lambda):
            continue
        if isinstance(n, (ast.ListComp, ast.SetComp, ast.DictComp, ast.GeneratorExp)):
            # the first iterable is evaluated in the enclosing scope; names bound inside are not ours
            continue
        if isinstance(n, ast.Global):
            scope.globals.update(n.names)
        if isinstance(n, ast.Nonlocal):
            scope.globals.update(n.names)
        if isinstance(n, (ast.Assign,)):
            for t in n.targets:
                _targets(t, scope.locals)
        if isinstance(n, (ast.AugAssign, ast.AnnAssign)):
            _targets(n.target, scope.locals)
        if isinstance(n, (ast.For, ast.AsyncFor)):
            _targets(n.target, scope.locals)
        if isinstance(n, (ast.With, ast.AsyncWith)):
            for it in n.items:
                if it.optional_vars is not None:
                    _targets(it.optional_vars, scope.locals)
        if isinstance(n, ast.ExceptHandler) and n.name:
            scope.locals.add(n.name)
        if isinstance(n, (ast.Import, ast.ImportFrom)):
            for a in n.names:
                scope.locals.add((a.asname or a.name).split(".")[0])
        if isinstance(n, ast.NamedExpr):
            _targets(n.target, scope.locals)
        stack.extend(ast.iter_child_nodes(n))


def _chain(node):
    """a.b.c -> ['a','b','c'] for pure Name/Attribute chains, else None"""
    parts = []
    while isinstance(node, ast.Attribute):
        parts.append(node.attr)
        node = node.value
    if isinstance(node, ast.Name):
        parts.append(node.id)
        return list(reversed(parts))
    return None


def extract(src_root):
    pkg_root = os.path.join(src_root, "kneeliverse")
    facts = []          # dicts with kind in {"name", "attr", "call"}
    scopes = {}         # sid -> sorted names visible through enclosing FUNCTION scopes
    defs = {}           # module -> module-level bindings
    aliases = {}        # module -> {alias: dotted target} for module-level imports
    files = []
    for dp, _, fns in os.walk(pkg_root):
        for fn in sorted(fns):
            if fn.endswith(".py"):
                files.append(os.path.join(dp, fn))
    counter = [0]
    for path in sorted(files):
        mod = _modname(path, src_root)
        tree = ast.parse(open(path).read(), path)
        msc = _Scope("%s:<module>" % mod, "module", None)
        _collect_locals(tree.body, msc)
        # `from m import *` binds every public name of m; `global x` + assignment inside a function binds x at module level
        for node in ast.walk(tree):
            if isinstance(node, ast.ImportFrom) and any(a.name == "*" for a in node.names) and node.module:
                try:
                    m = importlib.import_module(node.module)
                    msc.locals.update(getattr(m, "__all__", [k for k in vars(m) if not k.startswith("_")]))
                except Exception:
                    pass
            if isinstance(node, ast.Global):
                msc.locals.update(node.names)
        defs[mod] = sorted(msc.locals)
        al = {}
        for n in tree.body:
            if isinstance(n, ast.Import):
                for a in n.names:
                    al[(a.asname or a.name.split(".")[0])] = a.name if a.asname else a.name.split(".")[0]
            elif isinstance(n, ast.ImportFrom) and n.module:
                for a in n.names:
                    al[a.asname or a.name] = n.module + "." + a.name
        aliases[mod] = al

        def visit(node, scope, fname):
            for ch in ast.iter_child_nodes(node):
                handle(ch, scope, fname)

        def new_scope(kind, parent, fname, args=None, body=None, comp=None):
            counter[0] += 1
            sc = _Scope("%s:%s#%d" % (mod, fname, counter[0]), kind, parent)
            if args is not None:
                for a in list(args.posonlyargs) + list(args.args) + list(args.kwonlyargs):
                    sc.locals.add(a.arg)
                if args.vararg:
                    sc.locals.add(args.vararg.arg)
                if args.kwarg:
                    sc.locals.add(args.kwarg.arg)
            if body is not None:
                _collect_locals(body, sc)
            if comp is not None:
                for g in comp:
                    _targets(g.target, sc.locals)
            vis = set()
            p = sc
            while p is not None:
                if p.kind != "module" and p.kind != "class":
                    vis |= p.locals
                elif p.kind == "class" and p is sc:
                    vis |= p.locals
                p = p.parent
            scopes[sc.sid] = sorted(vis)
            return sc

        def handle(n, scope, fname):
            if isinstance(n, (ast.FunctionDef, ast.AsyncFunctionDef)):
                for d in n.decorator_list:
                    handle(d, scope, fname)
                for dflt in list(n.args.defaults) + [d for d in n.args.kw_defaults if d is not None]:
                    handle(dflt, scope, fname)
                sc = new_scope("function", scope, n.name, n.args, n.body)
                for b in n.body:
                    handle(b, sc, n.name)
                return
            if isinstance(n, ast.Lambda):
                sc = new_scope("function", scope, fname + ".<lambda>", n.args, [n.body])
                handle(n.body, sc, fname)
                return
            if isinstance(n, ast.ClassDef):
                for b in n.bases:
                    handle(b, scope, fname)
                sc = new_scope("class", scope, n.name, None, n.body)
                for b in n.body:
                    handle(b, sc, n.name)
                return
            if isinstance(n, (ast.ListComp, ast.SetComp, ast.DictComp, ast.GeneratorExp)):
                handle(n.generators[0].iter, scope, fname)
                sc = new_scope("function", scope, fname + ".<comp>", None, None, n.generators)
                for k, g in enumerate(n.generators):
                    if k > 0:
                        handle(g.iter, sc, fname)
                    for c in g.ifs:
                        handle(c, sc, fname)
                    handle(g.target, sc, fname)
                if isinstance(n, ast.DictComp):
                    handle(n.key, sc, fname)
                    handle(n.value, sc, fname)
                else:
                    handle(n.elt, sc, fname)
                return
            if isinstance(n, ast.Call):
                ch = _chain(n.func)
                if ch is not None:
                    facts.append({"kind": "call", "module": mod, "function": fname, "line": n.lineno, "chain": ch,
                                  "scope": scope.sid, "npos": sum(1 for a in n.args if not isinstance(a, ast.Starred)),
                                  "star": any(isinstance(a, ast.Starred) for a in n.args) or any(k.arg is None for k in n.keywords),
                                  "kw": [k.arg for k in n.keywords if k.arg is not None]})
            if isinstance(n, ast.Attribute):
                ch = _chain(n)
                if ch is not None and isinstance(n.ctx, ast.Load):
                    facts.append({"kind": "attr", "module": mod, "function": fname, "line": n.lineno, "chain": ch, "scope": scope.sid})
                    # the root name is a use as well
                    facts.append({"kind": "name", "module": mod, "function": fname, "line": n.lineno, "name": ch[0], "scope": scope.sid})
                    return
            if isinstance(n, ast.Name) and isinstance(n.ctx, ast.Load):
                facts.append({"kind": "name", "module": mod, "function": fname, "line": n.lineno, "name": n.id, "scope": scope.sid})
            visit(n, scope, fname)

        scopes[msc.sid] = []
        for b in tree.body:
            handle(b, msc, "<module>")
    return facts, scopes, defs, aliases


def resolve_tables(facts, scopes, defs, aliases):
    """dir() tables for every prefix of every attribute chain whose root is a module-level binding that is not
    shadowed locally, and signatures of package functions reachable through such chains or plain names."""
    attrs = {}      # "module|a.b" -> sorted dir() of the object at that path (or None if unreachable)
    sigs = {}       # "module|a.b.c" -> signature record for call facts whose callee is a kneeliverse python function
    objs = {}

    def root_obj(mod, name):
        key = (mod, name)
        if key not in objs:
            try:
                m = importlib.import_module(mod)
                objs[key] = getattr(m, name)
            except Exception:
                objs[key] = None
        return objs[key]

    def sig_of(o):
        f = getattr(o, "py_func", o)
        if not isinstance(f, types.FunctionType) or not (f.__module__ or "").startswith("kneeliverse"):
            return None
        try:
            s = inspect.signature(f)
        except Exception:
            return None
        ps = list(s.parameters.values())
        pos = [p for p in ps if p.kind in (p.POSITIONAL_ONLY, p.POSITIONAL_OR_KEYWORD)]
        return {"names": [p.name for p in ps if p.kind in (p.POSITIONAL_OR_KEYWORD, p.KEYWORD_ONLY)],
                "posnames": [p.name for p in pos],
                "required": [p.name for p in ps if p.default is p.empty and p.kind in (p.POSITIONAL_ONLY, p.POSITIONAL_OR_KEYWORD, p.KEYWORD_ONLY)],
                "maxpos": len(pos), "varargs": any(p.kind == p.VAR_POSITIONAL for p in ps),
                "varkw": any(p.kind == p.VAR_KEYWORD for p in ps), "qualname": f.__module__ + "." + f.__qualname__}

    for f in facts:
        if f["kind"] not in ("attr", "call"):
            continue
        ch = f["chain"]
        mod = f["module"]
        shadowed = ch[0] in scopes.get(f["scope"], [])
        f["rooted"] = (not shadowed) and ch[0] in defs[mod]
        if not f["rooted"]:
            continue
        o = root_obj(mod, ch[0])
        # only chains through modules / classes / functions are statically meaningful (not instances such as arrays)
        path = ch[0]
        f["static_depth"] = 1
        for k in range(1, len(ch)):
            if o is None or not isinstance(o, (types.ModuleType, type)):
                break
            key = "%s|%s" % (mod, path)
            if key not in attrs:
                attrs[key] = sorted(set(dir(o)))
            f["static_depth"] = k + 1
            o = getattr(o, ch[k], None)
            path += "." + ch[k]
        if f["kind"] == "call" and f["static_depth"] == len(ch) and o is not None:
            s = sig_of(o)
            if s is not None:
                sigs["%s|%s" % (mod, ".".join(ch))] = s
    return attrs, sigs


BUILTINS = sorted(set(dir(builtins)) | {"__name__", "__file__", "__doc__", "__class__", "__builtins__"})
