"""Re-checks TLAPS proofs (tools/prove.sh).  A proof is a statement about the SPECIFICATION (for every n), not about the
code: the outcome is recorded in the evidence as a note and never turns into a VIOLATION or a machinery failure of a check
(the binding of the code to the specification is TLC's trace validation, which does not depend on it)."""
import os
import subprocess

ROOT = os.path.dirname(os.path.dirname(os.path.abspath(__file__)))


def recheck(ctx, modules):
    try:
        p = subprocess.run([os.path.join(ROOT, "tools", "prove.sh")] + [m + ".tla" for m in modules], stdout=subprocess.PIPE,
                           stderr=subprocess.STDOUT, text=True, timeout=3600)
        lines = [l for l in p.stdout.split("\n") if l.startswith(("PROVED", "NOT-PROVED"))]
    except Exception as ex:      # tlapm missing / timeout: note only
        lines = ["NOT-RUN %s" % repr(ex)[:120]]
    ctx.extra.setdefault("tlaps", []).extend(lines)
    for l in lines:
        ctx.note("TLAPS: " + l)
    return lines
