"""Trusted evaluator of Terms (spec/Term.tla, DESIGN 3.2 item 3).

A Term arrives as the JSON form of a nested TLA+ record ({"op": "add", "a": ..., "b": ...}).
Evaluation is exact over fractions.Fraction for the rational operations (eps = 10^-16 exactly);
sqrt / ln1p / atan are applied in binary64 to the correctly rounded value of their exact argument,
and whatever is computed on top of their results continues in binary64.  There is no decision
logic here: the specification has already chosen every branch when it built the Term.
"""
import math
from fractions import Fraction

EPS = Fraction(1, 10 ** 16)


def _f(v):
    return float(v)           # Fraction -> nearest double (correctly rounded); float -> itself


def _median(vs):
    s = sorted(vs)
    k = len(s) // 2
    return s[k] if len(s) % 2 else (s[k - 1] + s[k]) / 2


_UNARY = {
    "neg": lambda a: -a,
    "sq": lambda a: a * a,
    "abs": abs,
    "sqrt": lambda a: math.sqrt(_f(a)),
    "ln1p": lambda a: math.log(_f(1 + a)),
    "atan": lambda a: math.atan(_f(a)),
}
_BINARY = {
    "add": lambda a, b: a + b,
    "sub": lambda a, b: a - b,
    "mul": lambda a, b: a * b,
    "div": lambda a, b: a / b,
    "max": max,
    "min": min,
}
_NARY = {
    "sum": lambda vs: sum(vs, Fraction(0)),
    "mean": lambda vs: sum(vs, Fraction(0)) / len(vs),
    "median": _median,
}


def eval_exact(t):
    """Value of a Term: Fraction while exact, float once a transcendental has been applied."""
    op = t["op"]
    if op == "num":
        return Fraction(t["p"], t["q"])
    if op == "eps":
        return EPS
    if op in _UNARY:
        return _UNARY[op](eval_exact(t["a"]))
    if op in _BINARY:
        return _BINARY[op](eval_exact(t["a"]), eval_exact(t["b"]))
    if op in _NARY:
        return _NARY[op]([eval_exact(x) for x in t["xs"]])
    raise ValueError("unknown Term operator %r" % (op,))


def eval_term(t):
    """Value of a Term as a binary64 float."""
    return _f(eval_exact(t))


def eval_term_eps(t, eps):
    """Value of a Term with another value substituted for the `eps` leaf (a Fraction), as a binary64 float."""
    global EPS
    old = EPS
    EPS = eps
    try:
        return _f(eval_exact(t))
    finally:
        EPS = old


def size(t):
    """Number of nodes of a Term (for evidence bookkeeping)."""
    if "xs" in t:
        return 1 + sum(size(x) for x in t["xs"])
    return 1 + sum(size(t[k]) for k in ("a", "b") if k in t)
