---- MODULE MapTrace ----
EXTENDS Naturals, Sequences, FiniteSets, TLC, Json, IOUtils, SequencesExt
Batch == JsonDeserialize("batch.json")
VARIABLES i, bad
\* spec of mapping: running count of removed points for segments starting before value
RECURSIVE SumBefore(_,_,_)
SumBefore(rem, v, k) == IF k > Len(rem) THEN 0 ELSE (IF rem[k][1] < v THEN rem[k][2] ELSE 0) + SumBefore(rem, v, k+1)
Expected(c) == [j \in 1..Len(c.sel) |-> c.sel[j] + SumBefore(c.removed, c.reduced[c.sel[j]+1], 1)]
Init == i = 1 /\ bad = {} /\ TLCSet(1, {})
Next == /\ i <= Len(Batch)
        /\ LET c == Batch[i] IN
             bad' = IF Expected(c) = c.out THEN bad ELSE bad \cup {c.id}
        /\ i' = i+1
        /\ IF Expected(Batch[i]) = Batch[i].out THEN TRUE ELSE TLCSet(1, TLCGet(1) \cup {Batch[i].id}) /\ PrintT(<<"VERDICT", Batch[i].id, "mapping-mismatch", Expected(Batch[i]), Batch[i].out>>)
Spec == Init /\ [][Next]_<<i,bad>>
Post == /\ PrintT(<<"BAD", TLCGet(1), "consumed", TLCGet("stats").diameter - 1, Len(Batch)>>) /\ TLCGet("stats").diameter - 1 = Len(Batch)
====
