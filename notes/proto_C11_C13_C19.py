import numpy as np, itertools
from fractions import Fraction as Fr
import kneeliverse.clustering as cl, kneeliverse.postprocessing as pp, kneeliverse.knee_ranking as kr, kneeliverse.evaluation as ev
# C11 exhaustive grid 0..8, n<=5, t=j/8 and j/10
def spec(xs,t,kind):
    L=Fr(xs[-1]-xs[0]); labs=[0]; start=0; amb=False
    for i in range(1,len(xs)):
        mem=xs[start:i]
        if kind=='single': d=Fr(xs[i]-xs[i-1])
        elif kind=='complete': d=Fr(xs[i]-xs[start])
        elif kind=='centroid': d=abs(Fr(xs[i])-Fr(sum(mem),len(mem)))
        else: d=Fr(sum(abs(xs[i]-m) for m in mem),len(mem))
        if kind=='centroid' and d/L==t and len(mem)>=2: amb=True
        if d/L>=t: labs.append(labs[-1]+1); start=i
        else: labs.append(labs[-1])
    return labs,amb
fs={'single':cl.single_linkage,'complete':cl.complete_linkage,'centroid':cl.centroid_linkage,'average':cl.average_linkage}
bad={k:0 for k in fs}; amb=0; tot=0; ambmis=0
for n in range(2,6):
    for S in itertools.combinations(range(9),n):
        P=np.array([[x,0.0] for x in S])
        for den in (8,10,3):
            for j in range(1,den+1):
                t=Fr(j,den)
                for k,f in fs.items():
                    tot+=1
                    e,a=spec(list(S),t,k); r=f(P,float(t)).tolist()
                    if a:
                        amb+=1
                        if r!=e: ambmis+=1
                        continue
                    if r!=e: bad[k]+=1
print('C11',bad,'amb',amb,'amb-mismatch',ambmis,'tot',tot)
# C13 worst filter + corner partition exhaustive small
bad=0;tot=0
for n in range(3,7):
    for ys in itertools.product(range(4),repeat=n):
        P=np.array([[i,ys[i]] for i in range(n)],float)
        for m in range(0,n+1):
            for K in itertools.combinations(range(n),m):
                K=np.array(K,dtype=int)
                if n==6 and m not in (2,3): continue
                tot+=1
                R=list(map(int,pp.filter_worst_knees(P,K)))
                exp=[];hm=None
                for k in K:
                    if hm is None or ys[k]<=hm: exp.append(int(k)); hm=ys[k]
                if R!=exp: bad+=1
                R2=list(map(int,pp.filter_worst_knees(P,np.array(R,dtype=int))))
                if R2!=R: bad+=1
                for t in (0.0,0.25,1/3,0.5,1.0):
                    A=set(map(int,pp.filter_corner_knees(P,K,t))); B=set(map(int,pp.select_corner_knees(P,K,t)))
                    mid={int(k) for k in K if 0<k<n-1}; ends={int(k) for k in K}-mid
                    if not (A&B==set() and (A|B)==set(map(int,K)) and ends<=A and B<=mid): bad+=1
print('C13 bad',bad,'of',tot)
# C19 cm greedy spec on integer curves
import random; random.seed(1)
bad=0;tot=0
for it in range(20000):
    n=random.choice([5,9]); P=np.array([[i,random.randint(0,3)] for i in range(n)],float)
    k=random.randint(1,n-1); K=np.array(sorted(random.sample(range(n),k)))
    e=random.randint(1,n-k) if n-k>=1 else 1
    E=np.array([[random.randint(0,n-1),random.randint(0,3)] for _ in range(e)],float)
    t=random.choice([0,Fr(1,8),Fr(1,4),Fr(1,2),1]); tot+=1
    M_=ev.cm(P,K,E,float(t))
    used=[];tp=fn=0
    for px,_ in E:
        d=[abs(Fr(int(P[kk,0]))-Fr(int(px)))/Fr(n-1) for kk in K]; idx=min(range(len(d)),key=lambda i:(d[i],i))
        if d[idx]<=t and idx not in used: tp+=1; used.append(idx)
        else: fn+=1
    fp=max(len(K)-tp,0); tn=n-(tp+fp+fn)
    if M_.tolist()!=[[tp,fp],[fn,tn]]: bad+=1
    if not (tp+fn==len(E) and tp+fp==len(K) and M_.sum()==n): bad+=1
print('C19 cm bad',bad,'of',tot)
