---- MODULE Clu ----
EXTENDS Naturals, Integers, Sequences, FiniteSets, TLC, Json, SequencesExt, FiniteSetsExt
CONSTANTS G, MaxN, TNum, TDen
\* strictly increasing x-sequences over 0..G of length 2..MaxN, encoded as subsets
Layouts == {S \in SUBSET (0..G) : Cardinality(S) >= 2 /\ Cardinality(S) <= MaxN}
VARIABLES xs, i, labels, anchor, t, pc
vars == <<xs,i,labels,anchor,t,pc>>
Abs(a) == IF a < 0 THEN -a ELSE a
Init == /\ xs \in {SetToSortSeq(S, <) : S \in Layouts}
        /\ t \in TNum
        /\ i = 2 /\ labels = <<0>> /\ anchor = 1 /\ pc = "run"
Len_ == xs[Len(xs)] - xs[1]
\* complete linkage: distance to the cluster's first point; split iff d/len >= t  <=> d*TDen >= t*len
Step == /\ pc = "run" /\ i <= Len(xs)
        /\ LET d == Abs(xs[i] - xs[anchor])
               split == d * TDen >= t * Len_
           IN /\ labels' = Append(labels, labels[Len(labels)] + (IF split THEN 1 ELSE 0))
              /\ anchor' = IF split THEN i ELSE anchor
        /\ i' = i + 1 /\ UNCHANGED <<xs,t,pc>>
Done == /\ pc = "run" /\ i > Len(xs) /\ pc' = "done"
        /\ PrintT(ToJson([x |-> xs, tnum |-> t, tden |-> TDen, labels |-> labels]))
        /\ UNCHANGED <<xs,i,labels,anchor,t>>
Next == Step \/ Done
Spec == Init /\ [][Next]_vars
Contig == \A k \in 2..Len(labels) : labels[k] - labels[k-1] \in {0,1}
====
