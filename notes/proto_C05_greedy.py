import numpy as np, random
import kneeliverse.rdp as rdp, kneeliverse.linear_fit as lf
from p7lib import *
def score(P,a,b,order):
    pt=P[a:b+1]
    d=lf.shortest_distance_points(pt,pt[0],pt[-1])
    if order is rdp.Order.triangle: return 0.5*np.linalg.norm(pt[0]-pt[-1])*d.max()
    if order is rdp.Order.area: return d.sum()
    return lf.linear_fit_residuals_points(pt)
stats={'tot':0,'size':0,'nest':0,'inside':0,'far':0,'prio':0}; ex={}
for it in range(3000):
    P=curve(it%4); n=len(P)
    for order in rdp.Order:
        prev=None
        for k in range(2,n+1):
            r,_=rdp.rdp_fixed(P,k,order=order); S=r.tolist()
            stats['tot']+=1
            if len(set(S))!=len(S) or len(S)!=min(max(k,2),n): stats['size']+=1; prev=None; break
            if prev is not None:
                new=set(S)-set(prev)
                if not set(prev)<=set(S) or len(new)!=1: stats['nest']+=1; ex.setdefault('nest',(P.tolist(),k,str(order),prev,S))
                else:
                    i=new.pop()
                    segs=[(prev[j],prev[j+1]) for j in range(len(prev)-1) if prev[j+1]-prev[j]>1]
                    seg=[(a,b) for a,b in segs if a<i<b]
                    if not seg: stats['inside']+=1
                    else:
                        a,b=seg[0]
                        if i not in farset(P,a,b): stats['far']+=1; ex.setdefault('far',(P.tolist(),k,str(order),prev,S))
                        sc=np.array([score(P,x,y,order) for x,y in segs]); rk=ranks(sc)
                        if rk[segs.index((a,b))]!=rk.max(): stats['prio']+=1; ex.setdefault('prio',(P.tolist(),k,str(order),prev,S,sc.tolist()))
            prev=S
print(stats)
for k,v in ex.items(): print(k,v)
