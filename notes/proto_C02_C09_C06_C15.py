import numpy as np, random, math, warnings
warnings.filterwarnings('ignore')
import kneeliverse.curvature as cu, kneeliverse.dfdt as df, kneeliverse.menger as me, kneeliverse.lmethod as lm
import kneeliverse.multi_knee as mk, kneeliverse.linear_fit as lf, kneeliverse.metrics as M
import kneeliverse.rdp as rdp, kneeliverse.evaluation as ev
import uts.gradient as grad, uts.thresholding as th
from p7lib import ranks
random.seed(11); np.random.seed(11)
def curve(nmin=5,nmax=18):
    n=random.randint(nmin,nmax)
    x=np.cumsum([random.randint(1,4) for _ in range(n)]).astype(float)
    k=random.randint(0,3)
    if k==0: y=np.sort(np.random.rand(n))[::-1]*10
    elif k==1: y=np.array([random.randint(0,5) for _ in range(n)],float)
    elif k==2: y=10/(x)+np.random.rand(n)*0.1
    else: y=np.abs(np.random.randn(n))
    return np.column_stack([x,y])
# ---- C02 decomposition
def MK(P,l,r,det,t1,t2):
    pt=P[l:r]
    if len(pt)<=t2: return []
    coef=lf.linear_fit_points(pt); rr=lf.smape_points(pt,coef)
    if not (rr>=t1): return []
    k=det(pt)
    if k is None: return []
    return sorted([l+k]+MK(P,l,l+k+1,det,t1,t2)+MK(P,l+k+1,r,det,t1,t2))
bad=0;tot=0
for it in range(600):
    P=curve()
    for name,mod,t2 in [('cu',cu,3),('df',df,3),('me',me,4),('lm',lm,4)]:
        for t1 in (0.0,0.001,0.05):
            tot+=1
            R=mod.multi_knee(P,t1,t2).tolist()
            E=[int(v) for v in MK(P,0,len(P),mod.knee,t1,t2)]
            ok = R==E and all(R[i]<R[i+1] for i in range(len(R)-1)) and all(0<=v<=len(P)-2 for v in R)
            if not ok: bad+=1; print('C02 BAD',name,t1,R,E)
print('C02',bad,'of',tot)
# ---- C09 curvature, dfdt loop, lmethod
bad={'cu':0,'df':0,'lmget':0,'lmref':0}; tot=0
for it in range(1500):
    P=curve(5,40); x=P[:,0]; y=P[:,1]; n=len(P); tot+=1
    g1=grad.cfd(x,y); g2=grad.csd(x,y); c=np.abs(g2)/((1+g1**2)**1.5)
    rk=ranks(c[1:-1]); r=cu.knee(P)
    if rk[r-1]!=rk.max(): bad['cu']+=1
    # dfdt loop
    def G(cut):
        g=g1[cut:]; t=th.isodata(g); d=np.abs(g-t)[1:-1]; rk=ranks(d); return {cut+1+i for i in range(len(d)) if rk[i]==rk.min()}
    knee=cutoff=0; last=-1; states={(0,0,-1)}
    # nondeterministic exploration
    front={(0,-1,0)}; finals=set()
    while front:
        knee,last,cutoff=front.pop()
        if last<knee and n-cutoff>2:
            for k2 in G(cutoff): front.add((k2,knee,int(math.ceil(k2/2.0))))
        else: finals.add(knee)
    if df.knee(P) not in finals: bad['df']+=1; print('DF',P.tolist(),df.knee(P),finals)
    for fit in lm.Fit:
        for cost in lm.Cost:
            length=x[-1]-x[0]
            E=np.array([lm.compute_error(x,y,i,length,fit,cost)[0] for i in range(2,n-2)])
            rk=ranks(E); r=lm.get_knee(x,y,fit,cost)[0]
            if rk[r-2]!=rk.min(): bad['lmget']+=1
print('C09',bad,'of',tot)
# ---- C06 mp / min_point
bad={'mp':0,'minpt':0}; tot=0
for it in range(400):
    P=curve(3,14); n=len(P)
    S={k:rdp.rdp_fixed(P,k)[0].tolist() for k in range(2,n+1)}
    if any(len(set(v))!=len(v) for v in S.values()): continue
    for cost in M.Metrics:
        for t in (0.3,0.05,0.005):
            acc=[k for k in range(2,n+1) if ((ev.compute_global_cost(P,np.array(S[k]),cost)>=t) if cost is M.Metrics.r2 else (ev.compute_global_cost(P,np.array(S[k]),cost)<t))]
            ks=acc[0] if acc else n
            for m in range(0,n+2):
                tot+=1
                R=rdp.mp_grdp(P,t,m,cost=cost)[0].tolist()
                if R!=S[max(ks,min(max(m,2),n))]: bad['mp']+=1; print('MP',P.tolist(),t,m,cost,R,ks)
    for m in range(0,n+2):
        ts=[0.001,0.1,0.01]
        R=rdp.min_point_rdp(P,list(ts),m)[0].tolist()
        exp=None
        for t in sorted(ts,reverse=True):
            g=rdp.grdp(P,t)[0].tolist()
            if len(g)>=m: exp=g; break
        if exp is None: exp=S[min(max(m,2),n)]
        if R!=exp: bad['minpt']+=1
print('C06',bad,'of',tot)
# ---- C15 definition
def defcost(P,S,cost):
    n=len(P); tot=n+len(S)-2; s=0.0; eps=1e-16
    for a,b in zip(S[:-1],S[1:]):
        pt=P[a:b+1]
        if len(pt)<=2: continue
        x=pt[:,0]; y=pt[:,1]; m=(y[0]-y[-1])/(x[0]-x[-1]); bb=y[0]-m*x[0]; h=m*x+bb
        if cost is M.Metrics.r2: s+=np.sum((y-h)**2)
        elif cost is M.Metrics.rmsle: s+=np.sum((np.log(y+1)-np.log(h+1))**2)
        elif cost is M.Metrics.rmspe: s+=np.sum(((y-h)/(y+eps))**2)
        elif cost is M.Metrics.rpd: s+=np.sum(np.abs((y-h)/(np.maximum(y,h)+eps)))
        else: s+=np.sum(2*np.abs(h-y)/(np.abs(y)+np.abs(h)+eps))
    if cost is M.Metrics.r2:
        tss=np.sum((P[:,1]-P[:,1].mean())**2); v=1-s if tss==0 else 1-s/tss
    elif cost in (M.Metrics.rmsle,M.Metrics.rmspe): v=math.sqrt(s/tot)
    else: v=s/tot
    return max(v,0)
bad=0;tot=0;cachebad=0
for it in range(500):
    P=curve(3,14); P[:,1]+=0.5; n=len(P)
    for cost in M.Metrics:
        cache={}
        for q in range(4):
            S=sorted(set([0,n-1]+random.sample(range(n),random.randint(0,n-2))))
            a=ev.compute_global_cost(P,np.array(S),cost,cache); b=ev.compute_global_cost(P,np.array(S),cost); d=defcost(P,S,cost)
            tot+=1
            if a!=b: cachebad+=1
            if abs(a-d)>1e-9*max(1,abs(d)): bad+=1; print('C15',cost,a,d)
print('C15 def bad',bad,'cache bad',cachebad,'of',tot)
