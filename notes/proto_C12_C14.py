import numpy as np, random, math, warnings
warnings.filterwarnings('ignore')
import kneeliverse.postprocessing as pp, kneeliverse.clustering as cl, kneeliverse.knee_ranking as kr, kneeliverse.rdp as rdp
from p7lib import ranks
random.seed(7); np.random.seed(7)
def curve():
    n=random.randint(8,40)
    x=np.cumsum([random.randint(1,4) for _ in range(n)]).astype(float)
    k=random.randint(0,2)
    if k==0: y=np.sort(np.random.rand(n))[::-1]
    elif k==1: y=np.round(np.sort(np.random.rand(n))[::-1],1)
    else: y=np.random.rand(n)
    return np.column_stack([x,y])
st={'tot':0,'subset':0,'one':0,'best':0,'nan':0,'exc':0}; ex={}
links=[cl.single_linkage,cl.complete_linkage,cl.centroid_linkage,cl.average_linkage]
for it in range(3000):
    P=curve(); n=len(P)
    m=random.randint(2,min(8,n-2)); K=np.array(sorted(random.sample(range(1,n-1),m)))
    link=random.choice(links); t=random.choice([0.05,0.1,0.2,0.5])
    for mode in (kr.ClusterRanking.left,kr.ClusterRanking.linear,kr.ClusterRanking.right):
        st['tot']+=1
        try: R=pp.filter_clusters(P,K,link,t,mode)
        except Exception as e: st['exc']+=1; ex.setdefault('exc',(repr(e),)); continue
        lab=link(P[K],t)
        if not (np.all(np.diff(R)>0) and set(R.tolist())<=set(K.tolist())): st['subset']+=1
        for c in range(lab.max()+1):
            mem=K[lab==c]; chosen=[r for r in R.tolist() if r in mem.tolist()]
            if len(chosen)!=1: st['one']+=1; ex.setdefault('one',(P.tolist(),K.tolist(),str(link),t,str(mode),R.tolist())); continue
            if len(mem)>1:
                sc=kr.smooth_ranking(P,mem,mode)
                if np.any(np.isnan(sc)): st['nan']+=1; continue
                rk=ranks(sc)
                if rk[mem.tolist().index(chosen[0])]!=rk.max(): st['best']+=1; ex.setdefault('best',(P.tolist(),K.tolist(),str(mode),R.tolist(),sc.tolist()))
print(st); 
for k,v in ex.items(): print(k,v)
# C14
def runmin(P,idx):
    out=[]; hm=None
    for i in idx:
        if hm is None or P[i,1]<=hm: out.append(i); hm=P[i,1]
    return out
st={'tot':0,'bad':0,'amb':0,'exc':0}; ex={}
for it in range(3000):
    P=curve(); n=len(P)
    if np.ptp(P[:,1])==0: continue
    red,rem=rdp.rdp_fixed(P,random.randint(3,min(10,n)))
    kk=sorted(random.sample(range(len(red)),random.randint(0,min(3,len(red)))))
    tx=random.choice([0.02,0.05,0.1,0.25]); ty=random.choice([0.02,0.05,0.2])
    for ext in (False,True):
        st['tot']+=1
        try: R=pp.add_points_even(P,red,np.array(kk),rem,tx,ty,ext)
        except Exception as e: st['exc']+=1; ex.setdefault('exc',(repr(e),P.tolist(),red.tolist(),kk)); continue
        dx=np.ptp(P[:,0]); dy=np.ptp(P[:,1]); new=set(red[kk].tolist()); amb=False
        for j in range(len(red)-1):
            a,b=int(red[j]),int(red[j+1])
            w=abs(P[b,0]-P[a,0])/dx; hh=abs(P[b,1]-P[a,1])/dy
            if w>2*tx and hh>ty:
                q=w/(2*tx)
                if abs(q-round(q))<1e-9: amb=True
                m=int(math.ceil(q)); inc=int((b-a)/m)
                new|={a+j2*inc for j2 in range(1,m+1)}
        if ext: new|={0,n-1}
        exp=runmin(P,sorted(new))
        if amb: st['amb']+=1; continue
        if list(map(int,R))!=exp: st['bad']+=1; ex.setdefault('bad',(P.tolist(),red.tolist(),kk,tx,ty,ext,list(map(int,R)),exp))
print(st)
for k,v in ex.items(): print(k,v)
