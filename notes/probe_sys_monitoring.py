import sys, numpy as np, time
import kneeliverse.rdp as rdp
mon = sys.monitoring
TOOL = 3
mon.use_tool_id(TOOL, "verif")
class Budget(Exception): pass
count = {}
limit = [200]
def on_jump(code, src, dst):
    if dst < src:   # back-edge
        k=(code.co_filename.rsplit('/',1)[-1], code.co_name)
        count[k]=count.get(k,0)+1
        if count[k] > limit[0]:
            raise Budget(f"loop budget exceeded in {k}")
mon.register_callback(TOOL, mon.events.JUMP, on_jump)
def watch(fn_codes):
    for c in fn_codes: mon.set_local_events(TOOL, c, mon.events.JUMP)
watch([rdp.rdp.__code__, rdp._rdp_fixed.__code__, rdp._grdp.__code__])
t=time.time()
try:
    print(rdp.rdp(np.array([[1,2],[4,1],[7,0]],float)))
except Budget as e: print("ABORT", e, time.time()-t)
count.clear()
print(rdp.rdp(np.array([[0,10],[1,4],[2,2],[3,1.5],[4,1.2]],float)), count)
count.clear()
print(rdp.rdp_fixed(np.array([[0,10],[1,4],[2,2],[3,1.5],[4,1.2]],float),4), count)
