---- MODULE LRef ----
EXTENDS Naturals, Integers, TLC
CONSTANTS N, Limit, Mode
\* K[c] = knee found on prefix x[0..c] (c clipped to N-1); L-method returns split in 2..len-3, len = min(c+1, N)
PLen(c) == IF c + 1 < N THEN c + 1 ELSE N
VARIABLES K, last, cur, cutoff, pc
vars == <<K,last,cur,cutoff,pc>>
Cut == Limit..N
Max(a,b) == IF a > b THEN a ELSE b
Min(a,b) == IF a < b THEN a ELSE b
Init == /\ K \in [Cut -> 2..(N-3)]
        /\ \A c \in Cut : K[c] <= Max(2, PLen(c) - 3)
        /\ last = -1 /\ cur = N /\ cutoff = N /\ pc = "loop"
Step == /\ pc = "loop" /\ cur # last
        /\ last' = cur
        /\ cur' = K[cutoff]
        /\ cutoff' = IF Mode = "adjusted" THEN Max(Limit, (cur' + cur) \div 2)
                     ELSE Max(Limit, Min(cur' * 2, N))
        /\ UNCHANGED <<K,pc>>
Stop == /\ pc = "loop" /\ cur = last /\ pc' = "done" /\ UNCHANGED <<K,last,cur,cutoff>>
Next == Step \/ Stop
Spec == Init /\ [][Next]_vars /\ WF_vars(Next)
Terminates == <>(pc = "done")
====
