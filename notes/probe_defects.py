import numpy as np, signal, traceback
import kneeliverse.rdp as rdp, kneeliverse.linear_fit as lf, kneeliverse.metrics as M
import kneeliverse.convex_hull as ch, kneeliverse.menger as menger, kneeliverse.postprocessing as pp
import kneeliverse.lmethod as lm, kneeliverse.kneedle as kd, kneeliverse.clustering as cl, kneeliverse.knee_ranking as kr
import kneeliverse.evaluation as ev

class TO(Exception): pass
def h(*a): raise TO()
signal.signal(signal.SIGALRM, h)
def run(name, f):
    signal.alarm(3)
    try:
        r = f(); print(name, '->', r)
    except TO: print(name, '-> TIMEOUT (non-termination)')
    except Exception as e: print(name, '-> EXC', type(e).__name__, e)
    finally: signal.alarm(0)

run('rdp collinear->0', lambda: rdp.rdp(np.array([[1,2],[4,1],[7,0]],float)))
run('rdp_fixed dup', lambda: rdp.rdp_fixed(np.array([[0,0],[1,9],[3,27]],float), 3))
run('mp_grdp dup', lambda: rdp.mp_grdp(np.array([[0,0],[1,9],[3,27]],float), min_points=3))
run('perp', lambda: lf.perpendicular_distance_points(np.array([[0,0],[1,1],[2,0.]]), np.array([0,0.]), np.array([2,0.])))
run('rdp perp', lambda: rdp.rdp(np.array([[0,1],[1,3],[2,4],[3,4.5]],float), distance=rdp.Distance.perpendicular))
run('hull lower', lambda: ch.graham_scan_lower(np.array([[0,0],[1,1],[2,0.]])))
run('graham collinear', lambda: ch.graham_scan(np.array([[0,0],[1,1],[2,2],[3,3.]])))
run('menger corner', lambda: menger.menger_curvature(np.array([1,0.]),np.array([0,0.]),np.array([1,1.])))
run('menger collinear', lambda: menger.menger_curvature(np.array([1,1.]),np.array([0,0.]),np.array([2,2.])))
pts = np.array([[i, max(10-3*i, 4-0.5*(i-2))] for i in range(9)],float)
print(pts.tolist())
run('menger knee elbow', lambda: menger.knee(pts))
run('kneedle knee', lambda: kd.knee(pts, 0))
run('add_even_knees extremes', lambda: pp.add_points_even_knees(pts, np.array([2,4]), extremes=True))
run('add_even_knees', lambda: pp.add_points_even_knees(pts, np.array([2,4]), extremes=False))
t=[0.0001,0.01]; 
run('min_point_rdp', lambda: rdp.min_point_rdp(pts, t, 3)); print('t after', t)
run('filter_clusters hull', lambda: pp.filter_clusters(pts, np.array([2,3,5]), cl.single_linkage, 0.3, kr.ClusterRanking.hull))
run('filter_clusters linear', lambda: pp.filter_clusters(pts, np.array([2,3,5]), cl.single_linkage, 0.3, kr.ClusterRanking.linear))
run('compute_global_segment_cost', lambda: ev.compute_global_segment_cost(pts, np.array([0,2,8])))
# lmethod original refinement
rng=np.random.default_rng(0)
for seed in range(200):
    rng=np.random.default_rng(seed)
    n=rng.integers(8,40)
    x=np.cumsum(rng.integers(1,4,n)).astype(float); y=np.sort(rng.random(n))[::-1]*10
    P=np.column_stack([x,y])
    for it in (lm.Refinement.original, lm.Refinement.adjusted):
      for limit in (2,5,10):
        signal.alarm(2)
        try: lm.knee(P, it=it, limit=limit)
        except TO: print('lmethod TIMEOUT', seed, it, limit, n); 
        except Exception as e: print('lmethod EXC', seed, it, limit, n, type(e).__name__, e)
        finally: signal.alarm(0)
