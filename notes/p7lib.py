import numpy as np, random, signal, sys
import kneeliverse.rdp as rdp, kneeliverse.linear_fit as lf, kneeliverse.metrics as M
random.seed(5); np.random.seed(5)
class TO(Exception): pass
def h(*a): raise TO()

def curve(kind):
    n=random.randint(3,16)
    x=np.cumsum([random.randint(1,3) for _ in range(n)]).astype(float)
    if kind==0: y=np.array([random.randint(1,6) for _ in range(n)],float)
    elif kind==1: y=np.sort(np.random.rand(n))[::-1]+0.01
    elif kind==2: y=np.array(sorted([random.randint(1,20) for _ in range(n)],reverse=True),float)
    else: y=np.abs(np.random.randn(n))*1e6+1
    return np.column_stack([x,y])
def ranks(v, rel=1e-9, ab=1e-12):
    order=np.argsort(v,kind='stable'); r=np.zeros(len(v),int); cur=0
    for j in range(1,len(v)):
        a,b=v[order[j-1]],v[order[j]]
        if abs(b-a) > max(ab, rel*max(abs(a),abs(b))): cur+=1
        r[order[j]]=cur
    return r
def farset(P,a,b):
    pt=P[a:b+1]; d=lf.shortest_distance_points(pt,pt[0],pt[-1])[1:-1]
    r=ranks(d); return {a+1+i for i in range(len(d)) if r[i]==r.max()}
def costclass(P,a,b,t,cost):
    pt=P[a:b+1]
    if len(pt)<=2: return True
    r=rdp.compute_cost_coef(pt, lf.linear_fit_points(pt), cost)
    return (r>=t) if cost is M.Metrics.r2 else (r<t)
