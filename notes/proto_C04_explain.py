import numpy as np, random, signal, sys
import kneeliverse.rdp as rdp, kneeliverse.linear_fit as lf, kneeliverse.metrics as M
random.seed(5); np.random.seed(5)
class TO(Exception): pass
def h(*a): raise TO()
signal.signal(signal.SIGALRM,h)
def curve(kind):
    n=random.randint(3,16)
    x=np.cumsum([random.randint(1,3) for _ in range(n)]).astype(float)
    if kind==0: y=np.array([random.randint(1,6) for _ in range(n)],float)
    elif kind==1: y=np.sort(np.random.rand(n))[::-1]+0.01
    elif kind==2: y=np.array(sorted([random.randint(1,20) for _ in range(n)],reverse=True),float)
    else: y=np.abs(np.random.randn(n))*1e6+1
    return np.column_stack([x,y])
def ranks(v, rel=1e-9, ab=1e-12):
    order=np.argsort(v,kind='stable'); r=np.zeros(len(v),int); cur=0
    for j in range(1,len(v)):
        a,b=v[order[j-1]],v[order[j]]
        if abs(b-a) > max(ab, rel*max(abs(a),abs(b))): cur+=1
        r[order[j]]=cur
    return r
def farset(P,a,b):
    pt=P[a:b+1]; d=lf.shortest_distance_points(pt,pt[0],pt[-1])[1:-1]
    r=ranks(d); return {a+1+i for i in range(len(d)) if r[i]==r.max()}
def costclass(P,a,b,t,cost):
    pt=P[a:b+1]
    if len(pt)<=2: return True
    r=rdp.compute_cost_coef(pt, lf.linear_fit_points(pt), cost)
    return (r>=t) if cost is M.Metrics.r2 else (r<t)
def explain(P,S,a,b,t,cost):
    inside=[s for s in S if a<s<b]
    if not inside: return costclass(P,a,b,t,cost), 'leaf'
    if costclass(P,a,b,t,cost): return False,'split-not-needed'
    F=farset(P,a,b)
    for s in inside:
        if s in F:
            ok1,_=explain(P,S,a,s,t,cost); ok2,_=explain(P,S,s,b,t,cost)
            if ok1 and ok2: return True,'ok'
    return False,'no-farthest-split'
bad=0; tot=0; skipped=0
for it in range(4000):
    P=curve(it%4); n=len(P)
    cost=random.choice(list(M.Metrics))
    # harvest thresholds
    cands=[]
    for _ in range(3):
        a=random.randint(0,n-3); b=random.randint(a+2,n-1)
        pt=P[a:b+1]; cands.append(float(rdp.compute_cost_coef(pt, lf.linear_fit_points(pt), cost)))
    for t in cands+[0.01,0.3]:
        if not np.isfinite(t) or t<=0: continue
        signal.alarm(2)
        try: r,rem=rdp.rdp(P,t,cost=cost)
        except TO: skipped+=1; continue
        finally: signal.alarm(0)
        tot+=1
        ok,why=explain(P,set(r.tolist()),0,n-1,t,cost)
        if not ok:
            bad+=1
            if bad<5: print('BAD',why,P.tolist(),t,cost,r.tolist())
print('C04 explain: bad',bad,'of',tot,'skipped(hang)',skipped)
