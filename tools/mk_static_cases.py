#!/usr/bin/env python3
"""Generates harness/static_cases.json from the (repaired) tree.  Run with
   PYTHONPATH=/repo/src:/verif /venv/bin/python tools/mk_static_cases.py   and review the diff."""
import json, os, sys
import numpy as np
sys.path.insert(0, '/verif')
out = {}
P = np.array([[0, 10], [1, 6], [2, 3.5], [4, 2], [5, 1.8], [7, 1.7], [8, 0.5], [11, 0.4], [12, 0.1]], float)
from harness.props import c01, c04, c05, c07
case, meta = c01._record(("static", P.tolist(), {"f": "rdp", "t": 0.05, "distance": "shortest", "cost": "rpd"}))
out["C01"] = case
r = c04._record(("static", P.tolist(), {"f": "rdp", "t": 0.05, "distance": "shortest", "cost": "rpd"}))
out["C04"] = r[0]
case, meta = c05._record(("static", P.tolist(), "shortest", "triangle"))
out["C05"] = case
c = c07._record(("static", P.tolist(), {"f": "rdp", "t": 0.05, "distance": "shortest", "cost": "rpd"}, 1))
out["C07"] = c07._strip(c)
p = '/verif/harness/static_cases.json'
old = json.load(open(p)) if os.path.exists(p) else {}
old.update(out)
json.dump(old, open(p, 'w'), indent=1)
for k, v in out.items():
    print(k, json.dumps(v)[:300])
from harness.props import c06
r = c06._record(("static", "global", P.tolist(), {"t": 0.05, "cost": "rpd", "distance": "shortest", "order": "triangle", "ms": list(range(0, 11))}))
old["C06_global"] = r[0]
r = c06._record(("static", "minpoint", P.tolist(), {"ts": [0.02, 0.3, 0.1], "m": 4}))
old["C06_minpoint"] = r[0]
json.dump(old, open(p, 'w'), indent=1)
print(json.dumps(old["C06_global"])[:600]); print(json.dumps(old["C06_minpoint"])[:900])
