#!/usr/bin/env python3
"""Regenerates MANIFEST.json from the table below (one source of truth for what is claimed)."""
import json, os
ROOT = os.path.dirname(os.path.dirname(os.path.abspath(__file__)))

CHECKS = {
 "C07": dict(
    technique="TLC model checking of the Mapping machine against MapSpec (all reductions, n<=8) + TLC-generated behaviours replayed into rdp.mapping/compute_removed_points + TLC trace validation of recorded simplifier outputs",
    text="Mapping.tla transcribes rdp.mapping loop by loop; TLC proves machine = MapSpec over every index subset / position list / row order for n<=8 (exhaustive), emits each behaviour and the harness replays all of them into the real functions (exact equality); reductions recorded from the five simplifiers on real curves are validated by Trace_Mapping. Exhaustive over the bounded structure space, sampled over real-valued curves.",
    note="bounded n for exhaustiveness; TLC/SANY/CommunityModules, CPython, NumPy trusted; mapping's documented precondition (ascending positions) assumed",
    ref="5/C07"),
 "C17": dict(
    technique="TLC evaluates the exact-rational geometric definitions (Geometry.tla) and their algebraic laws over the complete integer grid and emits every case; replay into the real primitives; TLC trace validation of rank on tied vectors",
    text="Geometry.tla is the executable definition (3-case point-segment distance, line distance, IoU, squared Menger curvature, rank); TLC checks its laws (segment>=line, zero iff on segment, IoU symmetric/in [0,1], Menger symmetric/zero iff collinear) on every grid case and emits each with its exact expected value; all cases are replayed into linear_fit/knee_ranking/menger/postprocessing. Exhaustive over the 0..3 (thorough 0..4, plus scaled/translated copy) grid; weak fit of the technique (closed-form functions), stated in DESIGN.",
    note="small exact integer domain, sqrt applied last; tolerance rel 1e-9; triangle_area compared in absolute value",
    ref="5/C17"),
 "C18": dict(
    technique="TLC model checking of the monotone-chain and Graham-scan machines (Hull.tla) against the brute-force hull on every grid curve / point subset, same run emits behaviours replayed into convex_hull.*; negative instance (unguarded scan must underflow)",
    text="Hull.tla transcribes graham_scan_lower/upper and graham_scan (angular sort with nearer-first ties, pop rule with stack guard) action by action; invariants say chain = brute-force hull chain with strict turns, Graham result contains every extreme point, only boundary points, and equals the clockwise vertex cycle in general position; all 14.9k (thorough: ~10^5) behaviours are replayed into the code with exact index comparison.",
    note="integer grid coordinates (orientation exact in binary64); bounded n; start vertex convention documented",
    ref="5/C18"),
}

PENDING = {}
for i in range(1, 21):
    pid = "C%02d" % i
    if pid not in CHECKS:
        PENDING[pid] = "check not built yet in this round (planned: see DESIGN.md section 5/%s); will be claimed once its TLA+ modules and bindings exist" % pid

m = {
 "version": 1,
 "setup_cmd": "mkdir -p /verif/evidence /verif/replays /verif/.scratch && /venv/bin/python -m compileall -q /verif/harness >/dev/null 2>&1; true",
 "hooks": {
   "guard": "KNEE_VERIF",
   "enable": "no source hooks: bin/check exports KNEE_VERIF=1 and PYTHONPATH=/repo/src; observation is at public-call boundaries plus sys.monitoring loop back-edge counts on kneeliverse code objects (harness/monitor.py)",
   "baseline_off_cmd": "cd /repo && /venv/bin/python -m pytest -ra -q -p no:cacheprovider --timeout=900 --continue-on-collection-errors",
   "source_commits": [],
   "add_only": True,
 },
 "engines": [
   {"name": "tlc", "path": "/opt/veriftools/tla/tla2tools.jar", "serves_properties": sorted(CHECKS),
    "kind_free_text": "TLC 1.8 explicit-state model checker: model checking of implementation-shaped machines (M), behaviour generation replayed into the code (G), batch trace validation of recorded executions (T); specs in /verif/spec"},
 ],
 "checks": [],
 "not_applicable": [{"property_id": k, "reason": v} for k, v in sorted(PENDING.items())],
 "notes": "All checks: bin/check <ID> --tier quick|thorough; exit 0 held / 1 VIOLATION / 2 machinery failure. KNEE_REPO=<dir> points the checks at another checkout (used for self-tests on scratch copies).",
}
for pid in sorted(CHECKS):
    c = CHECKS[pid]
    m["checks"].append({
        "property_id": pid,
        "quick_cmd": "bin/check %s --tier quick" % pid,
        "thorough_cmd": "bin/check %s --tier thorough" % pid,
        "evidence_file": "/verif/evidence/%s.json" % pid,
        "replay_cmd_template": "bin/check %s --replay {path}" % pid,
        "engine": "tlc",
        "level_claimed": {"category": "model_checking", "text": c["text"], "design_ref": c["ref"]},
        "level_note": c["note"],
        "technique": c["technique"],
    })
with open(os.path.join(ROOT, "MANIFEST.json"), "w") as f:
    json.dump(m, f, indent=1)
print("MANIFEST.json: %d checks, %d pending" % (len(m["checks"]), len(PENDING)))
