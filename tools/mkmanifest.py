#!/usr/bin/env python3
"""Regenerates MANIFEST.json from the table below (one source of truth for what is claimed)."""
import json, os
ROOT = os.path.dirname(os.path.dirname(os.path.abspath(__file__)))

CHECKS = {
 "C07": dict(
    technique="TLC model checking of the Mapping machine against MapSpec (all reductions, n<=8) + TLC-generated behaviours replayed into rdp.mapping/compute_removed_points + TLC trace validation of recorded simplifier outputs",
    text="Mapping.tla transcribes rdp.mapping loop by loop; TLC proves machine = MapSpec over every index subset / position list / row order for n<=8 (exhaustive), emits each behaviour and the harness replays all of them into the real functions (exact equality); reductions recorded from the five simplifiers on real curves are validated by Trace_Mapping. Exhaustive over the bounded structure space, sampled over real-valued curves.",
    note="bounded n for exhaustiveness; TLC/SANY/CommunityModules, CPython, NumPy trusted; mapping's documented precondition (ascending positions) assumed",
    ref="5/C07"),
 "C17": dict(
    technique="TLC evaluates the exact-rational geometric definitions (Geometry.tla) and their algebraic laws over the complete integer grid and emits every case; replay into the real primitives; TLC trace validation of rank on tied vectors",
    text="Geometry.tla is the executable definition (3-case point-segment distance, line distance, IoU, squared Menger curvature, rank); TLC checks its laws (segment>=line, zero iff on segment, IoU symmetric/in [0,1], Menger symmetric/zero iff collinear) on every grid case and emits each with its exact expected value; all cases are replayed into linear_fit/knee_ranking/menger/postprocessing. Exhaustive over the 0..3 (thorough 0..4, plus scaled/translated copy) grid; weak fit of the technique (closed-form functions), stated in DESIGN.",
    note="small exact integer domain, sqrt applied last; tolerance rel 1e-9; triangle_area compared in absolute value",
    ref="5/C17"),
 "C18": dict(
    technique="TLC model checking of the monotone-chain and Graham-scan machines (Hull.tla) against the brute-force hull on every grid curve / point subset, same run emits behaviours replayed into convex_hull.*; negative instance (unguarded scan must underflow)",
    text="Hull.tla transcribes graham_scan_lower/upper and graham_scan (angular sort with nearer-first ties, pop rule with stack guard) action by action; invariants say chain = brute-force hull chain with strict turns, Graham result contains every extreme point, only boundary points, and equals the clockwise vertex cycle in general position; all 14.9k (thorough: ~10^5) behaviours are replayed into the code with exact index comparison.",
    note="integer grid coordinates (orientation exact in binary64); bounded n; start vertex convention documented",
    ref="5/C18"),
 "C01": dict(
    technique="TLC model checking of the Rdp and Fixed machines (termination, linear step bounds, well-formedness, every oracle; negative instances for the end-point split / 2-point seed) + TLC trace validation of recorded simplifier calls with sys.monitoring loop back-edge counts; TLC refinement check of Rdp.tla against RdpProof.tla, whose step bound is proved for every n with TLAPS (supplementary)",
    text="Rdp.tla / Fixed.tla mirror rdp.rdp and the priority-stack family loop by loop with lazily chosen memoised oracles; TLC proves termination (<>done under WF), steps <= 2n-3 / n-2, and the structural clauses for every oracle up to n=7 (Rdp) / n=5..6 (Fixed); each recorded public call (outcome incl. budget/watchdog, back-edge count, reduced, removed) is judged by Trace_Simplify against WellFormedClause and 2x the proved bound. ~24k calls per quick run over the full configuration product on adversarial curves.",
    note="bounded n for M; T samples real-valued curves; step counts are loop back-edges observed with sys.monitoring (no source hook); hang detection: per-loop limit 8n+64 on the refinement loops, quadratic total back-edge budget, CPU-time watchdog",
    ref="5/C01"),
 "C04": dict(
    technique="TLC model checking that the Rdp machine's output is explainable by its oracle + TLC trace validation of rdp.rdp outputs with the recursive ExplainClause operator over class/far tables from the library's primitives (harvested exact-tie thresholds)",
    text="ExplainClause (SimplifyProps.tla) is the property: every retained segment with interior points is on the accepting side, every retained interior index is a farthest point of a rejected range, recursively. MC_Rdp shows the implementation-shaped machine refines it for every oracle; Trace_Simplify evaluates it on ~5k recorded rdp.rdp calls per quick run (5 metrics x 2 distances, thresholds harvested from observed costs so that >= vs > is visible).",
    note="relative to the library's own cost/distance primitives (bit-exact classes; far sets noise-merged); results with > 40 retained points not validated",
    ref="5/C04"),
 "C05": dict(
    technique="TLC model checking of the Fixed machine (exact size, stack = splittable retained segments sorted by priority, rdp_fixed(k) = prefix of the chain) + event-by-event TLC trace validation of the history rdp_fixed(k), k=0..n+1 (Trace_Chain)",
    text="Trace_Chain consumes the chain event by event keeping the previous member as state: exact size min(max(k,2),n), nestedness, new index inside a retained segment, farthest point, maximal ordering score (noise-merged ranks of triangle/area/segment scores from library primitives). MC_Fixed proves the same of the machine for every far/priority oracle.",
    note="ordering scores recomputed from public primitives; ranks noise-merged (rel 1e-9); chains cut at k=14 for n>16",
    ref="5/C05"),
 "C06": dict(
    technique="TLC model checking of grdp/mp/minpoint modes of the Fixed machine against the chain generated by the same memoised oracle (ResultOk, TestedEvery; negative instance: test every second insertion) + TLC trace validation of grdp, mp_grdp(m) for every m, min_point_rdp against FirstAccepted over the recorded chain",
    text="The property-level operators FirstAccepted / MpSize / the multi-threshold rule are evaluated by TLC on recorded histories {rdp_fixed(k)}_k with bit-exact acceptance classes of compute_global_cost; thresholds are harvested from chain costs (ties). MC_Fixed proves the variants return exactly the chain member the property names for every oracle.",
    note="n<=24 for recorded chains; min_point_rdp's default configuration assumed as in the code's signature",
    ref="5/C06"),
 "C15": dict(
    technique="TLC model checking of the cost-cache history machine (GlobalCost.tla: CacheSound/CacheDomain/divisor/perfect fit; negative instances keyed-by-left and metric switch) + TLC-generated query histories replayed with shared vs fresh caches + TLC trace validation of recorded random histories (Trace_GlobalCost)",
    text="The cache is modelled as key -> identity of the computation that produced the entry; TLC shows every value read is what a fresh computation would produce for all histories of <=3 queries (n<=6, 5 metrics) and emits each history with the structure of every answer (contributing segments, divisor n+|S|-2, normalisation). The harness replays each history on 3 curves with one shared dict and with fresh caches (bit-identity), compares values with the exact-fraction evaluation of the definition, global RMSE with point-wise interpolation RMSE and MIP with its median definition; random longer histories on float curves are consumed query by query by Trace_GlobalCost.",
    note="real arithmetic of the definition is evaluated by harness/costdef.py (trusted, exact fractions, eps exact); 0/eps ill-conditioned points classed ambiguous; dict key layout mismatches are DRIFT notes, not violations",
    ref="5/C15"),
 "C02": dict(
    technique="TLC model checking of the multi_knee recursion machine against the recursive decomposition MKSet for every detector/gate oracle (negative instance: detector may return the last index) + TLC-generated recursion trees replayed through the public wrapper with synthetic detectors + TLC trace validation of the 5 bundled detectors with K/C tables; TLC refinement check of MultiKnee.tla against MultiKneeProof.tla, whose pop bound is proved for every n with TLAPS (supplementary)",
    text="MultiKnee.tla mirrors the stack loop of multi_knee.multi_knee; TLC proves termination, pop bound, ordering, range, interiority and result = MKSet(0,n) for every oracle up to n=9, and emits every recursion tree (n<=7/8) which is replayed through multi_knee.multi_knee with a synthetic detector answering from the tree's table (answers 0, len-2, None included). For curvature, DFDT, Menger, L-method and Kneedle the recorded multi_knee result is judged by Trace_MultiKnee against MKSet over tables K[l][r]=<detector>.knee(points[l:r]) and the bit-exact gate table.",
    note="n<=16 for real detectors (all slices tabulated); gate relative to lf.smape_points; uts dependency trusted",
    ref="5/C02"),
 "C03": dict(
    technique="TLC checks the mechanism lemmas (only the corner triple turns; zero two-line residual only at the corner) with exact integer arithmetic on every generated two-slope elbow and emits it; replay into the 4 detectors x all options + Kneedle; harness-generated long elbows are admitted by TLC trace validation of family membership first",
    text="Elbow.tla defines the family (arms, spacings 1..4, slopes j/8, dyadic offsets, heights scaled by 8) and the lemmas the property's anchors name; TLC checks them on each of 1152 (thorough ~92k) members and the harness replays each into curvature/DFDT/Menger/L-method (Fit x Refinement, Fit x Cost)/Kneedle(t=0, monotone members) expecting the corner index; random long elbows (arms <= 40) are validated as family members by Trace_Elbow and replayed too. The detectors' real arithmetic is exercised only through replay (stated in DESIGN as a weaker fit).",
    note="exactly representable inputs; L-method run with default limit; uts trusted",
    ref="5/C03"),
 "C09": dict(
    technique="TLC model checking of the DFDT cutoff loop and the three L-method refinement rules over arbitrary per-cutoff answer tables (termination, interior results; negative instance: the unguarded original rule gives a lasso) + TLC trace validation of detector results against argopt sets / reachable loop fixpoints computed from the stated criteria",
    text="Trace_Detectors judges each recorded call: curvature/Menger/DFDT single pass/L-method get_knee results must lie in the noise-merged argmax/argmin set of the criterion recomputed by the harness from the stated formula; dfdt.knee and lmethod.knee results must be reachable results of the loop machines (DfdtFinals/LFinals explore all noise-tied optimisers); termination via loop back-edge budget. LRefine.tla proves termination of all loops for every table up to n=13.",
    note="criteria recomputed from uts.gradient / isodata (trusted) and lmethod.compute_error on prefixes; ties within noise accept any optimiser; limit >= 4",
    ref="5/C09"),
 "C11": dict(
    technique="TLC model checking of the four single-pass linkage machines against the independent declarative NewCluster definition over all integer layouts (negative instances: strict comparison, stale anchor, window off by one) + TLC-generated layouts x thresholds replayed into clustering.* + TLC trace validation of random float layouts over exact-fraction decision tables",
    text="Clustering.tla holds one machine per linkage with the code's running state (previous x, anchor, exact rational centroid + size, window start) and the declarative rule; TLC proves machine = rule, labels contiguous from 0 and monotone cluster counts for single/complete linkage on every layout in 0..8 (n<=5, t=j/8; thorough 0..12, n<=7), emits expected labels (both outcomes on ambiguous centroid ties) and the harness replays ~12k groups exactly; random float layouts are judged by Trace_Clustering over decision tables computed with fractions.Fraction.",
    note="exact-tie semantics by construction (t = p/q with a single correctly rounded division); centroid ties at cluster size >= 2 ambiguous; near band 1e-12 on float layouts",
    ref="5/C11"),
 "C12": dict(
    technique="TLC model checking of the per-cluster selection loop (ClusterFilter.tla) against ClusterProps for every labelling / score table / hull pattern (negative instance: pick worst) + TLC trace validation of filter_clusters / filter_clusters_corners calls with labels, independently recomputed ranking scores and hull membership",
    text="RankedClause/HullClause state the property (strictly increasing subset, exactly one per cluster with maximal fit x relative-height score; hull mode: at most one per cluster, none from a cluster whose span holds no lower-hull point; corner variant maximises the corner-triangle score). The machine is checked against them for all inputs with <=4 (thorough 5) knees; ~1.5k recorded calls per quick run (4 linkages x thresholds x 5 modes) are judged by Trace_Cluster with noise-merged score ranks.",
    note="labels from the library's linkage (C11), hull from graham_scan_lower (C18); scores recomputed independently of smooth_ranking; NaN-score clusters structural only",
    ref="5/C12"),
 "C19": dict(
    technique="TLC model checking of the greedy confusion-matrix machine and the nearest-neighbour error definitions (accounting identities, TP <= maximum matching, score ranges; negative instances: re-claiming knees, raw fp) + TLC-generated (curve, knees, expected, t, strategy) cases replayed into evaluation.*",
    text="Evaluation.tla transcribes cm's greedy claim loop and defines the four matching strategies; TLC checks TP+FN=|E|, TP+FP=|K|, sum=n, greedy count, error >= 0 and = 0 on exact detection, accuracy/F1 in [0,1], MCC^2<=1, =1 on perfect detection on every enumerated case and emits expected matrices and exact error values; ~30k behaviours per quick run replayed into cm/mae/mse/rmse/rmspe/accuracy/f1score/mcc (integers exactly, reals rel 1e-9).",
    note="x = 0..n-1 with n-1 a power of two so distance/range <= t is exact; first-index tie rule of numpy.argmin; rmspe evaluated over fractions from the TLC-emitted matching; score formula mismatches that respect the stated ranges are DRIFT notes",
    ref="5/C19"),
 "C16": dict(
    technique="TLC enumerates small exact vector domains, checks the algebraic laws of the textbook definitions (Metrics.tla, exact rationals) as invariants and emits each case with its expected value as a deep-embedded Term; replay into metrics.* / linear_fit.* with a ~70-line exact Term evaluator",
    text="Metrics.tla/Term.tla are the executable definitions (R2 with the tss=0 branch and the adjusted correction, rmse, rmsle, rmspe, rpd, smape, residuals with the eps guard symbolic, linear-fit wrappers, endpoint fit, best-fit R2 = corr^2); TLC checks symmetry, non-negativity, zero at y=y_hat, smape<=2, R2<=1, endpoint interpolation, corr^2 in [0,1] on every enumerated case (10k quick / 44k thorough) and the harness replays each into the numba-jitted metrics (float64, int64, mixed) and the linear_fit wrappers, comparing with the Term value (rel 1e-9). Weak fit of the technique (closed-form functions), as DESIGN states.",
    note="vectors of length 1..3, entries 0..3 (thorough ..4); eps = 1e-16 exact in the evaluator; angle compared in magnitude; constant vectors excluded for corr^2",
    ref="5/C16"),
 "C20": dict(
    technique="TLC trace validation of per-function call histories over representation variants (Purity.tla: arguments unchanged, same result class as the first call) + TLC evaluation of Python's name/attribute/arity resolution rules (Linkage.tla) over AST facts of every module and dir()/signature tables of the imported objects",
    text="Dynamic: 216 call recipes cover every public function (inventory from the modules' defs; gaps are reported) on a real-valued and an integer-valued world in C-ordered float64, same-objects-again, Fortran-ordered, strided-view and int64 representations; argument digests and result classes form a history judged event by event. Static: ~4.8k facts (every Name load, every attribute chain rooted at a module-level binding, every call to a python function of the package) are checked by TLC against scopes/module bindings/builtins, dir() of the real imported objects and inspect signatures, covering code no input reaches.",
    note="flow-insensitive name resolution; attribute chains followed through modules/classes only; AST extractor trusted; known findings D13 (legacy arity) and D14 (plt) listed in known_findings.json",
    ref="5/C20"),
 "C13": dict(
    technique="TLC model checking of the worst-knee running-minimum machine against the declarative RunMin and of the corner filter/selector laws (negative instances: strict comparison, stale minimum) + TLC-generated (curve, knee list, threshold incl. every occurring IoU) behaviours replayed into the three filters + TLC trace validation on random float curves with bit-exact IoU classes",
    text="Filters.tla defines RunMin, the WorstFilter step machine, CornerIoU (exact rational from Geometry.tla) and the class rule below/atleast/end; TLC checks machine = RunMin, idempotence, partition and order preservation on every curve x knee subset (n<=5 quick, 6 thorough) and emits 37k behaviours whose thresholds include every IoU value of the curve (exact ties); each is replayed (twice, for idempotence) into filter_worst_knees / filter_corner_knees / select_corner_knees; random float curves are judged by Trace_Filters with classes from knee_ranking.rect_overlap compared bit-exactly with harvested thresholds.",
    note="small integer domains with t = p/q decided identically in binary64; T relative to the library's rect_overlap (C17 owns it)",
    ref="5/C13"),
 "C14": dict(
    technique="TLC evaluates the documented EvenPoints definition (exact rational width/height tests, ceil, floor increments, RunMin tail) on dyadic grids and emits expected index arrays for both variants and both extremes settings; replay into add_points_even / add_points_even_knees; TLC trace validation on random float curves with ambiguity classes",
    text="Filters.tla's EvenReduced/EvenMarkers are the property; Gen_EvenPoints enumerates curves on the n-1=8 (thorough 16) grid x reductions x knee subsets x (tx,ty) in {1/16,1/8,1/4}x{1/8,1/4,1/2} x extremes and the harness replays 380k calls demanding index-array equality, validity and strict increase; random float curves are judged by Trace_Filters with near-threshold cases classed ambiguous.",
    note="dyadic grids make ceil(pdx/(2tx)) exact; height profiles are a fixed list (stated in the evidence rule); empty knee sets outside the domain",
    ref="5/C14"),
 "C08": dict(
    technique="TLC model checking that the pipeline invariants follow from the stage guarantees for every choice the stages may make (Pipeline.tla; negative instance: duplicate index in the reduction) + event-by-event TLC trace validation of the demo composition over simplifier x detector x linkage x mode configurations (Trace_Pipeline)",
    text="Pipeline.tla models each stage by what its own property guarantees (any strictly increasing knee list, RunMin, any subsequence, MapSpec) and TLC shows subsequence/height-monotonicity/strictly-increasing-mapped invariants for n<=6; the harness runs simplify -> multi_knee -> worst -> corner -> cluster -> mapping with the real functions (5 simplifiers x 5 detectors x 4 linkages x 4 modes, covering sample in quick, ~230 pipelines) and Trace_Pipeline evaluates the invariants after every stage: stage completes, filter output a subsequence of its input, heights non-increasing from the worst filter on, mapped indices strictly increasing, retained points, bit-identical coordinates.",
    note="demo scripts not executed (argparse/matplotlib); heights compared exactly; curves up to a few hundred points",
    ref="5/C08"),
 "C10": dict(
    technique="TLC model checking of the Z-method round machine (candidate groups split at x gaps, y-band selection guard, band removal, threshold lowering, final sweep) for arbitrary z-level tables against ZOk (negative instances: y-band guard dropped, one side of the x band dropped) + TLC trace validation of zmethod.knees calls with integer x, height ranks and y-separation tables",
    text="ZMethod.tla mirrors getPoints round by round; TLC proves termination, a linear round bound and ZOk (valid strictly increasing indices, non-increasing heights, pairwise x separation >= w and y separation) for n<=6, and that each negative variant violates ZOk; ~3k recorded zmethod.knees calls per quick run on miss-ratio-like curves (plateaus, rounded heights, with/without x_max / y_range overrides) are judged by Trace_ZMethod including the loop back-edge bound ceil((3-zmin)/dz)+n+2.",
    note="x integral by precondition; y separation with 1e-12 slack in the code's favour; uts.gradient/zscore trusted; the machine's unique prediction is compared as DRIFT only",
    ref="5/C10"),
}

# scale families (DESIGN 11.8): production-size inputs judged by TLC through sparse tables
SCALE = {"C01": "Trace_WellFormedScale", "C02": "Trace_MultiKneeScale", "C03": "Trace_ElbowScale", "C04": "Trace_ExplainScale",
         "C05": "Trace_ChainScale", "C06": "Trace_GlobalScale", "C07": "Trace_MappingScale", "C08": "Trace_PipelineScale",
         "C09": "Trace_DetectorsScale", "C10": "Trace_ZMethod", "C11": "Trace_ClusteringScale", "C12": "Trace_ClusterScale",
         "C13": "Trace_FiltersScale", "C14": "Trace_EvenScale", "C17": "Trace_RankScale", "C18": "Trace_HullScale",
         "C19": "Trace_EvaluationScale", "C20": "Purity"}
for _pid, _mod in SCALE.items():
    if _pid in CHECKS and os.path.exists(os.path.join(ROOT, "spec", _mod + ".tla")) and "Scale" in open(os.path.join(ROOT, "harness", "props", _pid.lower() + ".py")).read():
        CHECKS[_pid]["technique"] += ("; TLC trace validation of production-size executions (10^3..10^5 points, thousands of knees / clusters / "
                                      "pending ranges) through sparse oracle tables (%s)" % _mod)

PENDING = {}
for i in range(1, 21):
    pid = "C%02d" % i
    if pid not in CHECKS:
        PENDING[pid] = "check not built yet in this round (planned: see DESIGN.md section 5/%s); will be claimed once its TLA+ modules and bindings exist" % pid

m = {
 "version": 1,
 "setup_cmd": "mkdir -p /verif/evidence /verif/replays /verif/.scratch && /venv/bin/python -m compileall -q /verif/harness >/dev/null 2>&1; true",
 "hooks": {
   "guard": "KNEE_VERIF",
   "enable": "no source hooks: bin/check exports KNEE_VERIF=1 and PYTHONPATH=/repo/src; observation is at public-call boundaries plus sys.monitoring loop back-edge counts on kneeliverse code objects (harness/monitor.py)",
   "baseline_off_cmd": "cd /repo && /venv/bin/python -m pytest -ra -q -p no:cacheprovider --timeout=900 --continue-on-collection-errors",
   "source_commits": [],
   "add_only": True,
 },
 "engines": [
   {"name": "tlc", "path": "/opt/veriftools/tla/tla2tools.jar", "serves_properties": sorted(CHECKS),
    "kind_free_text": "TLC 1.8 explicit-state model checker: model checking of implementation-shaped machines (M), behaviour generation replayed into the code (G), batch trace validation of recorded executions (T); specs in /verif/spec"},
 ],
 "checks": [],
 "not_applicable": [{"property_id": k, "reason": v} for k, v in sorted(PENDING.items())],
 "notes": "All checks: bin/check <ID> --tier quick|thorough; exit 0 held / 1 VIOLATION / 2 machinery failure. KNEE_REPO=<dir> points the checks at another checkout (used for self-tests on scratch copies).",
}
for pid in sorted(CHECKS):
    c = CHECKS[pid]
    m["checks"].append({
        "property_id": pid,
        "quick_cmd": "bin/check %s --tier quick" % pid,
        "thorough_cmd": "bin/check %s --tier thorough" % pid,
        "evidence_file": "/verif/evidence/%s.json" % pid,
        "replay_cmd_template": "bin/check %s --replay {path}" % pid,
        "engine": "tlc",
        "level_claimed": {"category": "model_checking", "text": c["text"], "design_ref": c["ref"]},
        "level_note": c["note"],
        "technique": c["technique"],
    })
with open(os.path.join(ROOT, "MANIFEST.json"), "w") as f:
    json.dump(m, f, indent=1)
print("MANIFEST.json: %d checks, %d pending" % (len(m["checks"]), len(PENDING)))
