#!/bin/bash
# tools/verify_round.sh <round> [IDs...] : verifies /tmp/seed<round>_<ID> with the owning check, one summary line each
R="$1"; shift
IDS="$@"; [ -z "$IDS" ] && IDS=$(for i in $(seq -w 1 20); do echo C$i; done)
for id in $IDS; do
  d=/tmp/seed${R}_$id
  [ -f $d/patch.diff ] || { echo "$id-$R: no patch yet"; continue; }
  out=$(/verif/tools/verify_seed.sh $d $id-$R $id 2>&1)
  suite=$(echo "$out" | grep "suite with change" | grep -o "[0-9]* passed" | head -1)
  d0=$(echo "$out" | grep "demo on unchanged" | grep -o "exit=[0-9]*"); d1=$(echo "$out" | grep "demo with change" | grep -o "exit=[0-9]*")
  if echo "$out" | grep -q "clause=\|VIOLATIONS"; then res="CAUGHT $(echo "$out" | grep -o 'clause=[^ ]*' | head -1)"; elif echo "$out" | grep -q "MACHINERY"; then res="MACHINERY-FAILURE"; else res="MISSED"; fi
  echo "$id-$R: suite=[$suite] demo_unchanged=$d0 demo_changed=$d1 -> $res"
done
