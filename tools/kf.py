#!/usr/bin/env python3
"""tools/kf.py fixed <PROP> <Dn> <grep-in-commit-subject> <what> [corpus]  |  known <PROP> <Dn> <match> <what>"""
import json, subprocess, sys
p = '/verif/known_findings.json'
d = json.load(open(p))
kind = sys.argv[1]
if kind == 'fixed':
    prop, did, grep, what = sys.argv[2:6]
    h = subprocess.check_output(['git', '-C', '/repo', 'log', '--format=%h', '--grep', grep]).decode().split()[0]
    e = {"status": "fixed", "property": prop, "commit": h, "id": did, "line": "fixed: property=%s %s %s" % (prop, h, what)}
    if len(sys.argv) > 6:
        e["corpus"] = sys.argv[6]
else:
    prop, did, match, what = sys.argv[2:6]
    e = {"status": "known", "property": prop, "id": did, "match": match, "what": what}
d["findings"] = [f for f in d["findings"] if not (f.get("id") == e["id"] and f.get("property") == e["property"])] + [e]
json.dump(d, open(p, 'w'), indent=1)
print(e)
