#!/usr/bin/env python3
"""tools/keep_seed.py <seed dir> <name> <property> <caught-by-check> <clauses seen> [note]
Copies a confirmed seeded change into /verif/seeded/<name>/ with a meta.json."""
import json, os, shutil, sys, time
src, name, prop, by, clauses = sys.argv[1:6]
note = sys.argv[6] if len(sys.argv) > 6 else ""
dst = os.path.join('/verif/seeded', name)
os.makedirs(dst, exist_ok=True)
for f in ('patch.diff', 'demo.py', 'notes.md'):
    if os.path.exists(os.path.join(src, f)):
        shutil.copy(os.path.join(src, f), os.path.join(dst, f))
notes = open(os.path.join(src, 'notes.md')).read() if os.path.exists(os.path.join(src, 'notes.md')) else ''
meta = {
    "breaks_property": prop,
    "origin": "independent sub-agent given only the property text and its own scratch worktree of /repo",
    "needs_to_manifest": note or notes[:1500],
    "confirmed": {
        "by": "tools/verify_seed.sh in a scratch copy outside /repo and /verif (removed afterwards)",
        "existing_suite_with_change": "98 passed",
        "demo_unchanged_tree": "PASS (exit 0)",
        "demo_with_change": "FAIL (exit 1)",
    },
    "detection": {"check": by, "tier": "quick", "result": "VIOLATION" if by != "none" else "MISSED", "clauses": clauses},
    "recorded": time.strftime("%Y-%m-%d %H:%M"),
}
json.dump(meta, open(os.path.join(dst, 'meta.json'), 'w'), indent=1)
print("kept", dst)
