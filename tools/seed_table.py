#!/usr/bin/env python3
"""Prints the markdown table 'seeded change -> what it needs -> which checks report it' from seeded/*/meta.json
(and, if given, MATRIX lines of tools/seed_matrix.sh logs)."""
import json, os, re, sys, glob
cross = {}
for f in sys.argv[1:]:
    for ln in open(f):
        m = re.match(r"MATRIX (\S+) (C\d+) (.*)", ln.strip())
        if m and "VIOLATIONS" in m.group(3):
            cross.setdefault(m.group(1), set()).add(m.group(2))
print("| Seeded change | Breaks | Needs, in order to manifest | Reported by (quick tier) | Clauses |")
print("|---|---|---|---|---|")
for d in sorted(x for x in os.listdir('/verif/seeded') if not x.startswith('_') and os.path.isdir('/verif/seeded/' + x)):
    m = json.load(open('/verif/seeded/%s/meta.json' % d))
    needs = m["needs_to_manifest"]
    # first "what it needs" sentence of the seeder's notes, if the meta has the whole notes
    mm = re.search(r"(?i)(needs?[^.\n]*manifest[^\n]*|what it needs[^\n]*)\n?([^\n]*)", needs)
    short = (mm.group(0) if mm else needs).replace("\n", " ").replace("|", "/")
    short = re.sub(r"\s+", " ", short)[:230]
    by = m["detection"]["check"]
    extra = sorted(cross.get(d, set()) - set(re.findall(r"C\d+", by)))
    if extra:
        by += " (+ " + ", ".join(extra) + ")"
    print("| `%s` | %s | %s | %s | %s |" % (d, m["breaks_property"], short, by, m["detection"]["clauses"].replace("|", "/")[:260]))
