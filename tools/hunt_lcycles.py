#!/usr/bin/env python3
"""tools/hunt_lcycles.py : model-driven input selection for C09.  Uses ONLY the harness's independent L-method criterion
(harness/props/c09._lerr) and the refinement step of spec/LRefine.tla (cutoff' = max(limit, min(2*knee, n))) to find small
curves whose 'original' refinement visits a cycle of length >= 3 (a 2-cycle guard does not stop those), and stores them as
regression inputs under corpus/C09/ (replayed first on every run).  Nothing of the library is executed here."""
import json, os, random, sys
sys.path.insert(0, "/verif")
import numpy as np
from harness.props import c09
from harness import numeric

def table(x, y, fit):
    n = len(x)
    A = []
    for cut in range(0, n + 1):
        xp, yp = x[0:cut + 1], y[0:cut + 1]
        if len(xp) < 5:
            A.append([]); continue
        E = [c09._lerr(xp, yp, i, fit, "rmse") for i in range(2, len(xp) - 2)]
        A.append([2 + i for i in c09._argset(E, "min")])
    return A

def cycle_len(A, n, limit):
    cur, cutoff, seen = n, n, []
    while True:
        a = A[min(cutoff, n)]
        if len(a) != 1:
            return 0                      # ambiguous step: not a clean witness
        cur = a[0]
        if cur in seen:
            return len(seen) - seen.index(cur)
        seen.append(cur)
        cutoff = max(limit, min(cur * 2, n))

rng = random.Random(20261002)
found = {"pointfit": [], "bestfit": []}
tries = 0
while min(len(v) for v in found.values()) < 6 and tries < 60000:
    tries += 1
    n = rng.randint(12, 22)
    x = np.arange(1, n + 1, dtype=float) if rng.random() < 0.7 else np.cumsum([rng.randint(1, 3) for _ in range(n)]).astype(float)
    y = np.array(sorted(rng.sample(range(1, 120), n), reverse=True), float) / 10.0
    for fit in ("pointfit", "bestfit"):
        if len(found[fit]) >= 6:
            continue
        A = table(x, y, fit)
        for limit in (5, 8, 10):
            L = cycle_len(A, n, limit)
            if L >= 3:
                found[fit].append((L, x.tolist(), y.tolist(), limit))
                break
k = 0
for fit, lst in found.items():
    for L, x, y, limit in lst:
        obj = {"property": "C09", "clause": "terminates", "detail": {"note": "model-selected input: the 'original' refinement visits a cycle of length %d" % L},
               "case": {"kind": "T", "points": [[a, b] for a, b in zip(x, y)], "what": ["lknee", fit, "original", limit], "cid": "lcycle%d" % k}}
        with open("/verif/corpus/C09/lcycle%d_len%d_%s.json" % (k, L, fit), "w") as f:
            json.dump(obj, f)
        k += 1
print("tries", tries, {f: [l[0] for l in v] for f, v in found.items()})
