#!/bin/bash
# tools/seed_check.sh <seed dir> <ID> [quick|thorough] : applies <seed dir>/patch.diff to a scratch copy of /repo (outside /repo and
# /verif, removed afterwards) and runs ONE check against it (no suite, no demo: see verify_seed.sh for the full confirmation).
SEED="$1"; ID="$2"; TIER="${3:-quick}"
D=$(mktemp -d /tmp/knee_seedchk.XXXXXX)
cp -r /repo/src /repo/test /repo/traces "$D"/
( cd "$D" && git init -q . && git add -A >/dev/null && git commit -qm base >/dev/null && git apply "$SEED/patch.diff" ) || { echo "PATCH DOES NOT APPLY"; rm -rf "$D"; exit 3; }
KNEE_REPO="$D" /verif/bin/check "$ID" --tier "$TIER" 2>&1 | grep -E "^check |clause=|MACHINERY|VIOLATION" | cut -c1-260 | awk '!s[$0]++' | head -8
rm -rf "$D"
