#!/bin/sh
# tools/mut.sh <relative file under src/kneeliverse> <sed expression> <ID> [ID...]
# Applies one source mutation to a scratch copy of /repo (outside /repo and /verif), runs the given
# quick checks against it (KNEE_REPO) and prints their final lines.  The copy is removed afterwards.
F="$1"; E="$2"; shift 2
D=$(mktemp -d /tmp/knee_mut.XXXXXX)
cp -r /repo/src /repo/traces "$D"/
sed -i "$E" "$D/src/kneeliverse/$F"
if diff -q "$D/src/kneeliverse/$F" "/repo/src/kneeliverse/$F" >/dev/null; then echo "MUTATION DID NOT APPLY"; rm -rf "$D"; exit 3; fi
for id in "$@"; do
  KNEE_REPO="$D" /verif/bin/check "$id" 2>&1 | grep -E "^check |clause=" | cut -c1-260 | awk '!s[$0]++' | head -5
done
rm -rf "$D"
