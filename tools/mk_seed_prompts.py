#!/usr/bin/env python3
"""tools/mk_seed_prompts.py <round> : writes /tmp/seed<round>_<ID>/{prompt.txt,property.txt} for every property and resets the
scratch worktrees /tmp/wt_<ID> (created if missing).  The prompt contains ONLY the property text and the changed lines of
the earlier kept seeds for that property (so that a new seeder does something else) - nothing about /verif's machinery."""
import glob, json, os, subprocess, sys

rnd = sys.argv[1]
ANGLE = {
    "5": ("Considered covered already: flipped comparisons / off-by-one bounds / dropped guards on the central loop, magnitude-dependent "
          "tolerances and numerically unstable rewrites, integer-dtype truncation, narrow integer dtypes, hidden state across calls, fast "
          "paths that only start at some input size, cooperating sites, ties, order of sort/unique/filter. Find something of yet ANOTHER "
          "kind. This round's theme: a well-meant MAINTENANCE change - a performance optimisation (vectorising a loop, caching / "
          "memoising, an early exit, replacing a scan by bisect/searchsorted, replacing a stable sort by an unstable one, preallocating), "
          "an API modernisation (one numpy/stdlib call replaced by a 'equivalent' one whose semantics differ in a corner: argsort kind, "
          "np.unique options, np.round vs int, // vs /, np.max vs np.maximum, in-place vs copy, views vs copies, broadcasting), a "
          "Python-level slip (shadowed loop variable, default argument changed, wrong variable of two similar names, `is` vs `==`, "
          "truthiness of 0 / empty arrays, operator precedence, chained comparison), or a clean-up that removes code that looked dead "
          "but is not. It must look like a commit a reviewer could approve."),
    "6": ("Considered covered already: everything simple. This round's theme: semantic drift in a HELPER that the property depends on "
          "indirectly (a function in another module called by the anchored code), or a change of a DEFAULT / enum mapping / dispatch "
          "table so that one rarely used option silently behaves like another."),
    "7": ("Considered covered already: everything simple, numeric tolerances, dtypes, hidden state, size-dependent fast paths, "
          "truthiness slips, enum/dispatch drift, helper drift, x/y translation and scaling. This round's theme: the EDGES of the "
          "property's own quantifier - the smallest valid inputs (n = 2, 3, 4 points; one or two knees; a single cluster; an empty "
          "list where allowed), degenerate-but-valid shapes (all-equal y, a single step, knees adjacent to each other or to the "
          "curve ends, thresholds at the extremes of their stated range, size parameters 0 / 1 / n / n+1), and the interaction of two "
          "options that are each fine alone. The change must still look like a reasonable commit (a guard moved, a loop bound "
          "'simplified', an early return added, a special case 'unified' with the general one)."),
    "8": ("Considered covered already: everything simple, numeric tolerances, dtypes, hidden state, size-dependent fast paths, "
          "truthiness slips, enum/dispatch drift, helper drift, translation/scaling, smallest inputs and extreme option values. "
          "This round's theme: the INTERFACE between two stages - what one function returns and the next one (or the caller) "
          "relies on: indices relative to a slice versus absolute indices (an offset added twice or not at all), the order / "
          "sortedness / uniqueness of a returned index array, a returned array that aliases an argument or an internal buffer, "
          "a fallback value taken on an exceptional path (an except clause, a NaN / None / empty result replaced by a default), "
          "a result computed for the wrong one of two similar inputs (reduced versus original curve, x versus index). Again it "
          "must look like a commit a reviewer could approve, and must need something specific to manifest."),
    "9": ("Considered covered already: everything simple, numeric tolerances, dtypes, hidden state, size-dependent fast paths, "
          "truthiness slips, enum/dispatch drift, helper drift, translation/scaling, smallest inputs, extreme option values, "
          "interfaces between stages. This round's theme: WELL-MEANT HARDENING that changes behaviour on valid inputs - input "
          "normalisation or validation added at a function's entry (np.asarray with a dtype, sorting by x, dropping duplicate or "
          "non-finite samples, rounding, clipping to a range, copying only sometimes), an over-correcting bug fix (abs(), max(0, .), "
          "np.nan_to_num, a try/except that swallows an error and returns a default, deduplicating or re-sorting a result 'to be "
          "safe'), or a compatibility shim for a newer numpy (a deprecated call replaced by its documented successor whose "
          "semantics differ in a corner). It must look like a commit a reviewer could approve, keep the suite at 98 passed, and "
          "need something specific - but VALID and inside the property's quantifier - to manifest."),
    "10": ("Considered covered already: everything simple, numeric tolerances, dtypes, hidden state, size-dependent fast paths, "
           "truthiness slips, enum/dispatch drift, helper drift, translation/scaling, smallest inputs, extreme option values, "
           "interfaces between stages, input normalisation and over-correcting fixes. Pick ONE of these three themes, whichever "
           "fits this property best: (a) COPY-PASTE BETWEEN SIBLINGS - the library has many near-twin functions (the `_points` "
           "variants next to the (x, y) variants, lower next to upper hull, left / right / linear ranking, shortest next to "
           "perpendicular, original next to adjusted refinement): a fix or tidy-up applied to one twin and pasted into the other "
           "with one token left unadapted; (b) DEFAULT ARGUMENT VALUES and module-level constants - a default changed, two "
           "defaults of cooperating functions drifting apart, a constant (eps, a magic number, a percentage versus a fraction) "
           "'corrected'; (c) PYTHON SEMANTICS - integer versus true division, round() to even, int() truncation towards zero on "
           "negatives, negative indices wrapping around, slice bounds, list multiplication aliasing, iterating over something "
           "being modified, sorted() versus .sort(), `a or b` on arrays. It must look like a commit a reviewer could approve, "
           "keep the suite at 98 passed, and need something specific but VALID (inside the property's quantifier) to manifest."),
    "11": ("Considered covered already: everything simple, numeric tolerances, dtypes, hidden state, size-dependent fast paths, "
           "truthiness slips, enum/dispatch drift, helper drift, translation/scaling, smallest inputs, extreme option values, "
           "interfaces between stages, input normalisation, over-correcting fixes, sibling copy-paste, defaults, Python semantics. "
           "This round's theme: DOCUMENTATION-DRIVEN CHANGES - read the docstrings, the README (/tmp/wt_*/README.md), the docs/ "
           "folder and the comments of the code the property is anchored in, find a place where the text and the code disagree or "
           "where the text is ambiguous, and 'fix the code to match the documentation' (or follow a TODO / FIXME comment, or a "
           "commented-out alternative line) in a way that breaks the property on specific valid inputs. The commit message you "
           "would write must be able to quote the documentation it follows. Keep the suite at 98 passed."),
    "12": ("Considered covered already: nearly everything about the main paths (see the previous changes). This round's theme: "
           "RARELY USED OPTIONAL PARAMETERS AND FLAGS of the functions the property is about - keyword arguments with defaults that "
           "callers almost never pass (eps values, x_max / y_range overrides, sorted=False, extremes, vertical=True, debug / plot "
           "flags, the R2 variant, limit, t2, sensitivity, peak-detection mode, explicit caches ...) and the INTERPLAY of two of "
           "them. Make a change that is invisible with the defaults and breaks the property (as stated - read its quantifier: it "
           "ranges over these options) when one such parameter is set to a valid non-default value. It must look like a commit a "
           "reviewer could approve and keep the suite at 98 passed."),
    "13": ("Considered covered already: see the previous changes - a dozen rounds of them. This round's method: STUDY THE EXISTING "
           "TESTS FIRST (test/*.py in your worktree). For the functions the property is about, write down exactly which inputs the "
           "tests use and which aspects of the result their assertions look at - and which they do not (only the first element? "
           "only the length? only one option value? only monotone curves? only integer data? assertEqual on a list that hides "
           "dtype? no assertion on the second return value?). Then make a change whose effect falls entirely into those blind "
           "spots while the property, as stated, is broken on valid inputs. In notes.md, name the test(s) and the blind spot you "
           "used. It must look like a commit a reviewer could approve and keep the suite at 98 passed."),
    "14": ("Considered covered already: see the previous changes - thirteen rounds of them, each with its own theme (simple slips, "
           "numerics, dtypes and hidden state, cooperating sites, maintenance optimisations, helper and dispatch drift, edges of "
           "the quantifier, interfaces between stages, hardening, sibling copy-paste / defaults / Python semantics, documentation-"
           "driven changes, rarely used parameters, blind spots of the tests). This round is FREE: study the previous changes "
           "listed above for this property, work out which clause of the property, which function, which option value or which "
           "kind of input NONE of them has exercised yet, and aim there. Prefer a change whose manifestation needs a kind of input "
           "or call pattern that none of the previous changes needed. It must look like a commit a reviewer could approve and keep "
           "the suite at 98 passed."),
    "15": ("Considered covered already: see the previous changes - fourteen rounds of them. This round's theme: SCALE. Every previous "
           "change manifests on a curve of a few dozen points. Make one that is INVISIBLE on small inputs and breaks the property "
           "only at a realistic production size: long curves (10^3 - 10^5 points), many knees or many clusters (hundreds), a large "
           "size parameter, deep refinement (hundreds of nested splits / iterations), large magnitudes reached only by accumulation "
           "over many samples. Typical sources: a recursion introduced where depth grows with the input, an iteration cap / "
           "max_iter / fixed-size buffer 'that is always enough', a narrow index or accumulator dtype (int16/int32/float32) chosen "
           "for memory, chunked / blocked processing with a seam between blocks, a sampling or striding shortcut taken above a size "
           "threshold, a tolerance that scales with n, a cache with a bounded size or a key that collides only among many entries, "
           "early termination after 'enough' candidates. The input must be VALID and inside the property's quantifier, the demo "
           "should run in under a minute, and the change must look like a commit a reviewer could approve (usually a performance "
           "or memory optimisation) and keep the suite at 98 passed."),
    "16": ("Considered covered already: see the previous changes - fifteen rounds of them; the last one (previous change number 15 above) "
           "was about SCALE. This round is SCALE AGAIN, with a DIFFERENT mechanism, a different function or option and a different "
           "size threshold than previous change 15: make a change that is INVISIBLE on small inputs and breaks the property only at "
           "a realistic production size - long curves (10^3 - 10^5 points), many knees or clusters (hundreds to thousands), large "
           "size parameters, deep refinements, values or counts that only become large by accumulation. Mechanisms to choose from "
           "(pick one that previous change 15 did NOT use): a recursion whose depth grows with the input, an iteration cap / "
           "patience / early termination after 'enough' candidates, a narrow index, counter or accumulator dtype (int8 / int16 / "
           "int32 / uint16 / float32 / float16), chunked or blocked processing with a seam or a dropped tail, a strided / sampled / "
           "coarse-to-fine shortcut above a size threshold, a tolerance or epsilon that scales with n, a bounded cache / memo table "
           "/ work list, a hash or key that collides only among many entries, np.searchsorted / bisect on something only "
           "approximately sorted at scale, a pre-allocated buffer of 'sufficient' size, an O(n^2) step replaced by an approximate "
           "O(n log n) one above a threshold. The input must be VALID and inside the property's quantifier, the demo should run in "
           "under a minute, and the change must look like a commit a reviewer could approve (a performance or memory optimisation) "
           "and keep the suite at 98 passed."),
    "17": ("Considered covered already: see the previous changes - sixteen rounds of them, each with its own theme (simple slips, "
           "numerics, dtypes and hidden state, cooperating sites, maintenance optimisations, helper and dispatch drift, edges of the "
           "quantifier, interfaces between stages, hardening, sibling copy-paste / defaults / Python semantics, documentation-driven "
           "changes, rarely used parameters, blind spots of the tests, free choice, and two rounds about production-size inputs). "
           "This LAST round is FREE again: a verification effort has been strengthened against all of the above, and your job is to "
           "find what it most plausibly still misses. Study the previous changes, decide which COMBINATION has never been tried "
           "for this property - e.g. a rarely used option AND a particular size, an integer dtype AND a translated curve, a second "
           "call AND a different option, an edge of the quantifier reached only through another public function, a clause of the "
           "property that only one or two previous changes ever touched - and aim there. It must look like a commit a reviewer could "
           "approve, keep the suite at 98 passed, manifest only on specific but VALID inputs inside the property's quantifier, and "
           "the demo should run in under a minute."),
    "18": ("Considered covered already: see the previous changes - seventeen rounds of them. This is a SHORT round: you have about "
           "TEN MINUTES in total, so pick quickly. Theme: ERROR / FALLBACK PATHS AND SECOND RETURN VALUES - a branch that is only taken "
           "when an intermediate result is empty, degenerate or tied (no candidate found, zero-length segment, all-equal values, a "
           "cache hit, a limit reached) or a secondary output (the second element of a returned tuple, a cost, a mapping) that "
           "callers rely on. Make a change there that breaks the property on specific VALID inputs inside its quantifier. It must "
           "look like a commit a reviewer could approve, keep the suite at 98 passed, and the demo should run in seconds."),
}[rnd]
props = [json.loads(l) for l in open("/verif/properties.jsonl")]
if len(sys.argv) > 2:
    props = [p for p in props if p["id"] in sys.argv[2:]]
for p in props:
    pid = p["id"]
    d = "/tmp/seed%s_%s" % (rnd, pid)
    wt = "/tmp/wt_%s" % pid
    os.makedirs(d, exist_ok=True)
    if not os.path.isdir(wt):
        subprocess.check_call(["git", "-C", "/repo", "worktree", "add", "--detach", "-q", wt])
    subprocess.check_call(["git", "-C", wt, "checkout", "-q", "--", "."])
    head = subprocess.check_output(["git", "-C", "/repo", "rev-parse", "HEAD"]).decode().strip()
    subprocess.check_call(["git", "-C", wt, "checkout", "-q", "--detach", head])
    subprocess.check_call(["git", "-C", wt, "clean", "-fdq"])
    q = p.get("quantifier", {}).get("text", "")
    open(os.path.join(d, "property.txt"), "w").write(json.dumps({k: p[k] for k in ("id", "title", "statement", "quantifier", "anchors")}, indent=1))
    prev = []
    for sd in sorted(glob.glob("/verif/seeded/%s-*" % pid)):
        lines = [l for l in open(os.path.join(sd, "patch.diff")).read().split("\n")
                 if (l.startswith("+") or l.startswith("-")) and not l.startswith("+++") and not l.startswith("---")]
        files = [l[6:] for l in open(os.path.join(sd, "patch.diff")).read().split("\n") if l.startswith("+++ b/")]
        prev.append("--- previous change %d (%s)\n%s" % (len(prev) + 1, ", ".join(files), "\n".join(lines[:14])))
    tmpl = open("/verif/tools/seed_prompt.tmpl").read()
    open(os.path.join(d, "prompt.txt"), "w").write(
        tmpl.replace("@WT@", wt).replace("@SD@", d).replace("@ID@", pid).replace("@TITLE@", p["title"])
            .replace("@STATEMENT@", p["statement"]).replace("@QUANT@", q).replace("@NPREV@", str(len(prev)))
            .replace("@PREV@", "\n\n".join(prev)).replace("@ANGLE@", ANGLE))
print("ok")
