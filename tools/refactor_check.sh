#!/bin/bash
# tools/refactor_check.sh <dir with patch.diff> [IDs...]
# Applies a BEHAVIOUR-PRESERVING refactoring to a scratch copy of /repo and runs the quick checks against it:
# any VIOLATION here is a false alarm of the machinery (or the refactoring is not behaviour preserving - look at it).
SRC="$1"; shift
IDS="$@"; [ -z "$IDS" ] && IDS=$(python3 -c "import json;print(' '.join(c['property_id'] for c in json.load(open('/verif/MANIFEST.json'))['checks']))")
D=$(mktemp -d /tmp/knee_refac.XXXXXX)
cp -r /repo/src /repo/test /repo/traces "$D"/
(cd "$D" && git init -q . && git apply "$SRC/patch.diff") || { echo "PATCH-FAILED $SRC"; rm -rf "$D"; exit 3; }
echo -n "suite: "; (cd "$D" && PYTHONPATH="$D/src" timeout 1200 /venv/bin/python -m pytest -q -p no:cacheprovider --timeout=900 test 2>&1 | tail -1)
for id in $IDS; do
  KNEE_REPO="$D" /verif/bin/check "$id" 2>&1 | grep -E "^check |clause=|MACHINERY|KNOWN" | cut -c1-300 | awk '!s[$0]++' | head -6 | sed "s|^|REFAC $(basename $SRC) |"
done
rm -rf "$D"
