#!/bin/bash
# tools/seed_matrix.sh [seed names...]   (default: all of seeded/*)
# For every kept seeded change: scratch copy of /repo outside /repo and /verif, apply patch, run ALL quick checks
# against it (KNEE_REPO), print one line per (seed, check): PASS / VIOLATIONS / MACHINERY FAILURE.
HERE="$(cd "$(dirname "$0")/.." && pwd)"
cd "$HERE"
NAMES="$@"; [ -z "$NAMES" ] && NAMES=$(ls seeded | grep -v "^_")
IDS=$(python3 -c "import json;print(' '.join(c['property_id'] for c in json.load(open('MANIFEST.json'))['checks']))")
for s in $NAMES; do
  D=$(mktemp -d /tmp/knee_matrix.XXXXXX)
  cp -r /repo/src /repo/traces "$D"/
  (cd "$D" && git init -q . && git apply "$HERE/seeded/$s/patch.diff") || { echo "$s PATCH-FAILED"; rm -rf "$D"; continue; }
  for id in $IDS; do
    r=$(KNEE_REPO="$D" bin/check "$id" 2>&1 | grep -E "^check " | sed 's/.*seed=0: \([A-Z ]*\)  (.*/\1/')
    echo "MATRIX $s $id $r"
  done
  rm -rf "$D"
done
