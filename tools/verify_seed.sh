#!/bin/bash
# tools/verify_seed.sh <seed dir> <label> <ID> [more IDs...]
# Confirms a seeded change (patch.diff + demo.py) in a scratch copy outside /repo and /verif:
#  - the existing suite still passes, the demo FAILs with the change and PASSes without,
#  - then runs the given quick checks against the changed copy (KNEE_REPO) and reports what they say.
SEED="$1"; LABEL="$2"; shift 2
D=$(mktemp -d /tmp/knee_seed.XXXXXX)
cp -r /repo/src /repo/test /repo/traces "$D"/
cd "$D" && git init -q . && git add -A >/dev/null && git commit -qm base >/dev/null
echo "== $LABEL"
echo -n "demo on unchanged tree: "; (cd "$D" && PYTHONPATH="$D/src" timeout 600 /venv/bin/python "$SEED/demo.py" 2>&1 | tail -1; echo "exit=${PIPESTATUS[0]}") | tr '\n' ' '; echo
if ! (cd "$D" && git apply "$SEED/patch.diff"); then echo "PATCH DOES NOT APPLY"; rm -rf "$D"; exit 3; fi
echo -n "suite with change: "; (cd "$D" && PYTHONPATH="$D/src" timeout 1200 /venv/bin/python -m pytest -q -p no:cacheprovider --timeout=900 test 2>&1 | tail -1)
echo -n "demo with change: "; (cd "$D" && PYTHONPATH="$D/src" timeout 600 /venv/bin/python "$SEED/demo.py" 2>&1 | tail -1; echo "exit=${PIPESTATUS[0]}") | tr '\n' ' '; echo
for id in "$@"; do
  KNEE_REPO="$D" /verif/bin/check "$id" 2>&1 | grep -E "^check |clause=|MACHINERY" | cut -c1-230 | awk '!s[$0]++' | head -4
done
rm -rf "$D"
