#!/bin/bash
# tools/prove.sh [module ...] : re-checks the TLAPS proofs under spec/ (default: every *_proofs.tla).
# Prints one line per module: "PROVED <module> <n> obligations" or "NOT-PROVED <module>"; exit 0 iff all proved.
cd "$(dirname "$(readlink -f "$0")")/../spec" || exit 2
MODS="$@"; [ -z "$MODS" ] && MODS=$(ls *_proofs.tla)
rc=0
for m in $MODS; do
  out=$(timeout 1800 tlapm --threads 8 --cleanfp "$m" 2>&1)
  n=$(echo "$out" | grep -o "All [0-9]* obligations proved" | grep -o "[0-9]*")
  if [ -n "$n" ]; then echo "PROVED ${m%.tla} $n obligations"; else echo "NOT-PROVED ${m%.tla}"; echo "$out" | tail -5; rc=1; fi
done
rm -rf .tlacache
exit $rc
